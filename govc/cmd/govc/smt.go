package main

import (
	"bytes"
	"context"
	"fmt"
	"os"
	"os/exec"
	"path/filepath"
	"regexp"
	"strings"
	"sync"
	"time"
)

// ---- term helpers (terms are plain SMT-LIB strings) ----

func sAnd(xs ...string) string {
	var ys []string
	for _, x := range xs {
		if x == "true" || x == "" {
			continue
		}
		if x == "false" {
			return "false"
		}
		ys = append(ys, x)
	}
	if len(ys) == 0 {
		return "true"
	}
	if len(ys) == 1 {
		return ys[0]
	}
	return "(and " + strings.Join(ys, " ") + ")"
}

func sOr(xs ...string) string {
	var ys []string
	for _, x := range xs {
		if x == "false" || x == "" {
			continue
		}
		if x == "true" {
			return "true"
		}
		ys = append(ys, x)
	}
	if len(ys) == 0 {
		return "false"
	}
	if len(ys) == 1 {
		return ys[0]
	}
	return "(or " + strings.Join(ys, " ") + ")"
}

func sNot(x string) string {
	if x == "true" {
		return "false"
	}
	if x == "false" {
		return "true"
	}
	if strings.HasPrefix(x, "(not ") && balanced(x[5:len(x)-1]) {
		return x[5 : len(x)-1]
	}
	return "(not " + x + ")"
}

func balanced(s string) bool {
	d := 0
	for _, c := range s {
		if c == '(' {
			d++
		} else if c == ')' {
			d--
			if d < 0 {
				return false
			}
		}
	}
	return d == 0
}

func sImp(a, b string) string {
	if a == "true" {
		return b
	}
	if b == "true" {
		return "true"
	}
	return "(=> " + a + " " + b + ")"
}

func sEq(a, b string) string  { return "(= " + a + " " + b + ")" }
func sIte(c, a, b string) string {
	if c == "true" {
		return a
	}
	if c == "false" {
		return b
	}
	if a == b {
		return a
	}
	return "(ite " + c + " " + a + " " + b + ")"
}
func sApp(f string, xs ...string) string { return "(" + f + " " + strings.Join(xs, " ") + ")" }
func sInt(n int64) string {
	if n < 0 {
		return fmt.Sprintf("(- %d)", -n)
	}
	return fmt.Sprintf("%d", n)
}
func sSel(a, i string) string      { return "(select " + a + " " + i + ")" }
func sStore(a, i, v string) string { return "(store " + a + " " + i + " " + v + ")" }

const preamble = `(set-option :produce-models true)
(set-logic ALL)
(declare-datatypes ((Slice 0)) (((mk-slice (s-arr Int) (s-off Int) (s-len Int) (s-cap Int)))))
(declare-datatypes ((Iface 0)) (((mk-iface (i-tag Int) (i-val Int)))))
(define-fun nilslice () Slice (mk-slice 0 0 0 0))
(define-fun niliface () Iface (mk-iface 0 0))
(define-fun imin ((a Int) (b Int)) Int (ite (<= a b) a b))
(define-fun imax ((a Int) (b Int)) Int (ite (>= a b) a b))
(define-fun tdiv ((a Int) (b Int)) Int (ite (>= a 0) (ite (> b 0) (div a b) (- (div a (- b)))) (ite (> b 0) (- (div (- a) b)) (div (- a) (- b)))))
(define-fun trem ((a Int) (b Int)) Int (- a (* b (tdiv a b))))
(declare-fun ep (Int Int) Int)
(assert (forall ((a Int) (i Int)) (! (= (mod (ep a i) 2) 1) :pattern ((ep a i)))))
(declare-fun ix (Int Int) Int)
(assert (forall ((a Int) (b Int)) (! (= (ix a b) (+ a b)) :pattern ((ix a b)))))
(declare-fun bxor (Int Int) Int)
(declare-fun bor (Int Int) Int)
(declare-fun band (Int Int) Int)
(declare-fun bshl (Int Int) Int)
(declare-fun bshr (Int Int) Int)
(declare-fun strlen (Int) Int)
(declare-fun crcOf ((Array Int Int) Int Int) Int)
(declare-fun crcCat (Int (Array Int Int) Int Int) Int)
`

// ---- solver portfolio ----

type SolveResult struct {
	Status string // unsat | sat | unknown | timeout | error
	Solver string
	Secs   float64
	Model  string
	Raw    string
}

type solverDef struct {
	name string
	args func(file string, secs int) []string
}

var solvers = []solverDef{
	{"z3-new", func(f string, s int) []string { return []string{"z3-new", fmt.Sprintf("-T:%d", s), f} }},
	{"z3", func(f string, s int) []string { return []string{"z3", fmt.Sprintf("-T:%d", s), f} }},
	{"cvc5", func(f string, s int) []string {
		return []string{"cvc5", fmt.Sprintf("--tlimit=%d", s*1000), "--produce-models", f}
	}},
}

func runSolver(ctx context.Context, sd solverDef, file string, secs int) SolveResult {
	args := sd.args(file, secs)
	t0 := time.Now()
	cctx, cancel := context.WithTimeout(ctx, time.Duration(secs+2)*time.Second)
	defer cancel()
	cmd := exec.CommandContext(cctx, args[0], args[1:]...)
	var out bytes.Buffer
	cmd.Stdout = &out
	cmd.Stderr = &out
	_ = cmd.Run()
	el := time.Since(t0).Seconds()
	txt := out.String()
	first := ""
	for _, l := range strings.Split(txt, "\n") {
		l = strings.TrimSpace(l)
		if l == "" || strings.HasPrefix(l, "(warning") || strings.HasPrefix(l, "WARNING") || strings.HasPrefix(l, ";") {
			continue
		}
		first = l
		break
	}
	r := SolveResult{Solver: sd.name, Secs: el, Raw: txt}
	switch {
	case first == "unsat":
		r.Status = "unsat"
	case first == "sat":
		r.Status = "sat"
		if k := strings.Index(txt, "sat\n"); k >= 0 {
			r.Model = txt[k+4:]
		}
	case first == "unknown":
		r.Status = "unknown"
	case first == "timeout" || cctx.Err() != nil:
		r.Status = "timeout"
	default:
		r.Status = "error"
	}
	return r
}

// solveFile: stage 1 z3-new with a short budget; stage 2 all three raced with the tier budget.
func solveFile(file string, budget int, usesLambda bool) (SolveResult, []SolveResult) {
	var all []SolveResult
	short := 3
	if budget < short {
		short = budget
	}
	r := runSolver(context.Background(), solvers[0], file, short)
	all = append(all, r)
	if r.Status == "unsat" || r.Status == "sat" {
		return r, all
	}
	ctx, cancel := context.WithCancel(context.Background())
	defer cancel()
	ch := make(chan SolveResult, len(solvers))
	n := 0
	for _, sd := range solvers {
		if sd.name == "cvc5" && usesLambda {
			continue
		}
		n++
		go func(sd solverDef) { ch <- runSolver(ctx, sd, file, budget) }(sd)
	}
	best := r
	for i := 0; i < n; i++ {
		x := <-ch
		all = append(all, x)
		if x.Status == "unsat" || x.Status == "sat" {
			best = x
			cancel()
			// drain remaining in background
			go func(k int) {
				for j := 0; j < k; j++ {
					<-ch
				}
			}(n - i - 1)
			return best, all
		}
		if best.Status == "error" || (best.Status != "unknown" && x.Status == "unknown") {
			best = x
		}
	}
	return best, all
}

// thorough agreement check: run all solvers to completion and detect unsat/sat disagreement
func solveAll(file string, budget int, usesLambda bool) (SolveResult, []SolveResult, bool) {
	var all []SolveResult
	var mu sync.Mutex
	var wg sync.WaitGroup
	for _, sd := range solvers {
		if sd.name == "cvc5" && usesLambda {
			continue
		}
		wg.Add(1)
		go func(sd solverDef) {
			defer wg.Done()
			x := runSolver(context.Background(), sd, file, budget)
			mu.Lock()
			all = append(all, x)
			mu.Unlock()
		}(sd)
	}
	wg.Wait()
	var best SolveResult
	sawSat, sawUnsat := false, false
	for _, x := range all {
		if x.Status == "unsat" {
			sawUnsat = true
			if best.Status != "unsat" || x.Secs < best.Secs {
				best = x
			}
		}
		if x.Status == "sat" {
			sawSat = true
			if best.Status == "" || best.Status == "unknown" || best.Status == "timeout" || best.Status == "error" {
				best = x
			}
		}
	}
	if best.Status == "" {
		best = all[0]
	}
	return best, all, sawSat && sawUnsat
}

var reModelDef = regexp.MustCompile(`\(define-fun\s+(\S+)\s+\(\)\s+(\S+)\s+([^\n]*?)\)\s*$`)

// parseModel extracts scalar constants from a z3/cvc5 model (Int and Bool only).
func parseModel(model string) map[string]string {
	res := map[string]string{}
	lines := strings.Split(model, "\n")
	for i := 0; i < len(lines); i++ {
		l := strings.TrimSpace(lines[i])
		if !strings.HasPrefix(l, "(define-fun ") {
			continue
		}
		// join with following line if the value is on the next line (z3 style)
		full := l
		if !balanced(full) || strings.Count(full, "(")-strings.Count(full, ")") > 0 {
			for j := i + 1; j < len(lines) && j < i+4; j++ {
				full += " " + strings.TrimSpace(lines[j])
				if strings.Count(full, "(") == strings.Count(full, ")") {
					i = j
					break
				}
			}
		}
		m := reModelDef.FindStringSubmatch(full)
		if m == nil {
			continue
		}
		if m[2] != "Int" && m[2] != "Bool" {
			continue
		}
		v := strings.TrimSpace(m[3])
		v = strings.ReplaceAll(v, "(- ", "-")
		v = strings.TrimSuffix(v, ")")
		res[m[1]] = v
	}
	return res
}

func writeSMT(dir, name, content string) (string, error) {
	safe := regexp.MustCompile(`[^A-Za-z0-9_.-]+`).ReplaceAllString(name, "_")
	if len(safe) > 150 {
		safe = safe[:150]
	}
	p := filepath.Join(dir, safe+".smt2")
	return p, os.WriteFile(p, []byte(content), 0644)
}
