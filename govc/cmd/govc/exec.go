package main

import (
	"fmt"
	"os"
	"go/token"
	"go/types"
	"sort"
	"strings"

	"golang.org/x/tools/go/ssa"
)

type snapshot struct {
	nDecl    int
	declared map[string]bool
	comps    map[string]Sort
	dtDone   map[string]bool
	specDone map[string]bool
	nObl     int
	oblNames map[string]int
	nFp      int
}

func copyB(m map[string]bool) map[string]bool {
	c := make(map[string]bool, len(m))
	for k, v := range m {
		c[k] = v
	}
	return c
}

func (e *Enc) snap() *snapshot {
	s := &snapshot{nFp: len(e.fpFuns), nDecl: len(e.decls), declared: copyB(e.declared), dtDone: copyB(e.dtDone), specDone: copyB(e.specDone), nObl: len(e.obls)}
	s.comps = make(map[string]Sort, len(e.comps))
	for k, v := range e.comps {
		s.comps[k] = v
	}
	s.oblNames = map[string]int{}
	for k, v := range e.oblNames {
		s.oblNames[k] = v
	}
	return s
}

func (e *Enc) restore(s *snapshot) {
	e.decls = e.decls[:s.nDecl]
	e.fpFuns = e.fpFuns[:s.nFp]
	e.declared = s.declared
	e.comps = s.comps
	e.dtDone = s.dtDone
	e.specDone = s.specDone
	e.obls = e.obls[:s.nObl]
	e.oblNames = s.oblNames
}

// succPos: for the k-th occurrence of pred p in b.Preds, the matching position in p.Succs
func predEdgeKey(b *ssa.BasicBlock, predIdx int) [2]int {
	p := b.Preds[predIdx]
	occ := 0
	for i := 0; i < predIdx; i++ {
		if b.Preds[i] == p {
			occ++
		}
	}
	for si, s := range p.Succs {
		if s == b {
			if occ == 0 {
				return [2]int{p.Index, si}
			}
			occ--
		}
	}
	return [2]int{p.Index, 0}
}

// run executes the function body symbolically. Returns result values and the exit state
// (nil if no return is reachable).
func (fr *Frame) run(args []*Val, st *State) ([]*Val, *State) {
	fn := fr.fn
	fr.analyse()
	for i, p := range fn.Params {
		if i < len(args) {
			v := *args[i]
			if v.GoT == nil {
				v.GoT = p.Type()
			}
			fr.vals[p] = &v
			fr.env[p.Name()] = &v
		}
	}
	fr.entry = st.clone()
	if fr.spec != nil {
		for _, u := range fr.spec.Unshared {
			if v, ok := fr.env[u]; ok {
				fr.unshared[v.T] = true
			}
		}
	}
	fr.collectDebug()
	blocks := fr.order
	fr.runBlocks(blocks, st, nil)
	return fr.finish()
}

func (fr *Frame) finish() ([]*Val, *State) {
	e := fr.e
	if len(fr.rets) == 0 {
		return nil, nil
	}
	var ins []*State
	for _, r := range fr.rets {
		ins = append(ins, r.st)
	}
	out := e.mergeStates("ret_"+fr.prefix, ins)
	nres := fr.fn.Signature.Results().Len()
	var res []*Val
	for i := 0; i < nres; i++ {
		t := fr.fn.Signature.Results().At(i).Type()
		s := e.sortOf(t)
		term := fr.rets[len(fr.rets)-1].vals[i].T
		for k := len(fr.rets) - 2; k >= 0; k-- {
			term = sIte(fr.rets[k].st.pc, fr.rets[k].vals[i].T, term)
		}
		n := e.define(fmt.Sprintf("%s_result%d", fr.prefix, i), s, term)
		v := &Val{T: n, S: s, GoT: t}
		if len(fr.rets) == 1 {
			v.Loc = fr.rets[0].vals[i].Loc
			v.Clo = fr.rets[0].vals[i].Clo
		}
		res = append(res, v)
	}
	return res, out
}

// runBlocks executes the given blocks (in RPO). If startState != nil and only != nil, the first
// block of "only" is entered with startState (used by the loop dry run).
func (fr *Frame) runBlocks(blocks []*ssa.BasicBlock, entrySt *State, only map[*ssa.BasicBlock]bool) {
	for bi, b := range blocks {
		if only != nil && !only[b] {
			continue
		}
		var st *State
		if bi == 0 && only == nil {
			st = entrySt.clone()
		} else if only != nil && b == fr.dryHeader {
			st = entrySt.clone()
		} else {
			st = fr.blockEntry(b)
		}
		if st == nil {
			continue
		}
		fr.curBlock = b
		for _, in := range b.Instrs {
			if st == nil {
				break
			}
			st = fr.exec(in, st)
		}
	}
}

func (fr *Frame) blockEntry(b *ssa.BasicBlock) *State {
	e := fr.e
	li := fr.loops[b]
	var ins []*State
	var idx []int
	for pi, p := range b.Preds {
		if li != nil && li.blocks[p] {
			continue // back edge
		}
		if s, ok := fr.edge[predEdgeKey(b, pi)]; ok && s != nil {
			ins = append(ins, s)
			idx = append(idx, pi)
		}
	}
	if len(ins) == 0 {
		return nil
	}
	st := e.mergeStates(fmt.Sprintf("%s_b%d", fr.prefix, b.Index), ins)
	// phis
	phiVal := func(phi *ssa.Phi) string {
		term := fr.val(phi.Edges[idx[len(idx)-1]]).T
		for k := len(idx) - 2; k >= 0; k-- {
			term = sIte(ins[k].pc, fr.val(phi.Edges[idx[k]]).T, term)
		}
		return term
	}
	if li == nil {
		for _, in := range b.Instrs {
			phi, ok := in.(*ssa.Phi)
			if !ok {
				break
			}
			v := fr.bind(phi, phiVal(phi))
			if len(idx) == 1 {
				src := fr.val(phi.Edges[idx[0]])
				v.Loc, v.Clo = src.Loc, src.Clo
			}
		}
		return st
	}
	return fr.enterLoop(b, li, st, phiVal)
}

func (fr *Frame) loopSpec(li *loopInfo) *LoopSpec {
	if fr.spec == nil {
		return nil
	}
	return fr.spec.Loops[li.ord]
}

func (fr *Frame) enterLoop(h *ssa.BasicBlock, li *loopInfo, stE *State, phiVal func(*ssa.Phi) string) *State {
	e := fr.e
	ls := fr.loopSpec(li)
	var phis []*ssa.Phi
	for _, in := range h.Instrs {
		if phi, ok := in.(*ssa.Phi); ok {
			phis = append(phis, phi)
		} else {
			break
		}
	}
	// (1) invariant on entry
	if ls != nil && e.dry == 0 {
		saved := map[ssa.Value]*Val{}
		for _, phi := range phis {
			saved[phi] = fr.vals[phi]
			fr.vals[phi] = &Val{T: phiVal(phi), S: e.sortOf(phi.Type()), GoT: phi.Type()}
		}
		fr.curBlock = h
		for _, c := range ls.Invs {
			t, err := fr.evalClause(c, stE, fr.entry, h, nil)
			if err != nil {
				fr.bindErr(c, err)
				continue
			}
			e.oblige("inv.entry", fmt.Sprintf("loop%d:%s", li.ord, c.Label), stE.pc, t, c.Props, blockPos(h), "")
		}
		for _, phi := range phis {
			if saved[phi] != nil {
				fr.vals[phi] = saved[phi]
			} else {
				delete(fr.vals, phi)
			}
		}
	}
	// (2) dry run to discover modified components
	modified := fr.discoverModified(h, li, stE, phis)
	// (3) havoc
	st := stE.clone()
	root := fr.root()
	var lfs []loopFrame
	for _, c := range modified {
		srt := e.comps[c]
		ent := e.get(stE, c, srt)
		nw := e.havocComp(st, c, srt)
		// automatic loop frame: objects that existed at function entry and are not named in the
		// function's modifies clause keep their value
		if cond, ok := root.frameCond(c, "lr!"); ok && strings.HasPrefix(srt, "(Array Int ") && e.dry == 0 {
			e.ctr++
			q := fmt.Sprintf("lr!%d", e.ctr)
			cq := strings.ReplaceAll(cond, "lr!", q)
			e.assume(st.pc, fmt.Sprintf("(forall ((%s Int)) (! (=> %s (= (select %s %s) (select %s %s))) :pattern ((select %s %s))))", q, cq, nw, q, ent, q, nw, q))
			lfs = append(lfs, loopFrame{c, srt, ent})
		}
	}
	if fr.loopFrames == nil {
		fr.loopFrames = map[*ssa.BasicBlock][]loopFrame{}
	}
	fr.loopFrames[h] = lfs
	if nx, ok := st.heap["$next"]; ok && contains(modified, "$next") {
		e.assume(st.pc, "(>= "+nx+" "+e.get(stE, "$next", "Int")+")")
	}
	for _, phi := range phis {
		v := fr.havocVal(phi, st)
		if phi.Comment == "rangeindex" {
			// range loops over slices: the hidden index starts at -1 and only grows
			e.assume(st.pc, "(and (>= "+v.T+" (- 1)) (<= "+v.T+" 17592186044416))")
		}
	}
	if ls != nil {
		fr.curBlock = h
		for _, c := range ls.Invs {
			t, err := fr.evalClause(c, st, fr.entry, h, nil)
			if err != nil {
				fr.bindErr(c, err)
				continue
			}
			e.assume(st.pc, t)
		}
		if ls.Decreases != "" {
			t, err := fr.evalExprStr(ls.Decreases, st, fr.entry, h, nil)
			if err == nil {
				fr.decr0[h] = e.define("decr_"+fr.prefix, "Int", t.T)
			}
		}
	}
	return st
}

func contains(xs []string, x string) bool {
	for _, y := range xs {
		if y == x {
			return true
		}
	}
	return false
}

func (fr *Frame) discoverModified(h *ssa.BasicBlock, li *loopInfo, stE *State, phis []*ssa.Phi) []string {
	e := fr.e
	sn := e.snap()
	e.dry++
	// save frame state
	sv := map[ssa.Value]*Val{}
	for k, v := range fr.vals {
		sv[k] = v
	}
	sout := map[*ssa.BasicBlock]*State{}
	for k, v := range fr.out {
		sout[k] = v
	}
	sedge := map[[2]int]*State{}
	for k, v := range fr.edge {
		sedge[k] = v
	}
	nret, ndef := len(fr.rets), len(fr.defers)
	sderef := map[ssa.Value]*ssa.BasicBlock{}
	for k, v := range fr.derefOK {
		sderef[k] = v
	}
	oldDry := fr.dryHeader
	fr.dryHeader = h
	root0 := fr.root()
	crLen := map[string]int{}
	for k, v := range root0.callResults {
		crLen[k] = len(v)
	}
	nRetained := len(e.retained)

	st := stE.clone()
	for _, phi := range phis {
		fr.havocVal(phi, st)
	}
	var states []*State
	prevDryStates := fr.dryStates
	fr.dryStates = &states
	// run the loop blocks in RPO
	var blocks []*ssa.BasicBlock
	for _, b := range fr.order {
		if li.blocks[b] {
			blocks = append(blocks, b)
		}
	}
	// make sure header first
	sort.SliceStable(blocks, func(i, j int) bool { return blocks[i] == h && blocks[j] != h })
	for _, b := range blocks {
		var s *State
		if b == h {
			s = st
		} else {
			s = fr.blockEntry(b)
		}
		if s == nil {
			continue
		}
		fr.curBlock = b
		for _, in := range b.Instrs {
			if _, isPhi := in.(*ssa.Phi); isPhi && b == h {
				continue
			}
			if s == nil {
				break
			}
			s = fr.exec(in, s)
		}
	}
	mod := map[string]bool{}
	for _, s := range states {
		for k, v := range s.heap {
			if e.get(stE, k, e.comps[k]) != v {
				mod[k] = true
			}
		}
	}
	for k, v := range root0.callResults {
		if n, ok := crLen[k]; ok {
			root0.callResults[k] = v[:n]
		} else {
			delete(root0.callResults, k)
		}
	}
	e.retained = e.retained[:nRetained]
	// modifications found in a nested loop are modifications of the enclosing loop being explored too
	if prevDryStates != nil {
		*prevDryStates = append(*prevDryStates, states...)
	}
	fr.dryStates = prevDryStates
	fr.dryHeader = oldDry
	// restore
	fr.vals = sv
	fr.out = sout
	fr.edge = sedge
	fr.rets = fr.rets[:nret]
	fr.defers = fr.defers[:ndef]
	fr.derefOK = sderef
	e.dry--
	// components first touched inside the loop must exist after restore
	var names []string
	compsAfter := e.comps
	e.restore(sn)
	for k := range mod {
		names = append(names, k)
		if _, ok := e.comps[k]; !ok {
			e.comp(k, compsAfter[k])
		}
	}
	sort.Strings(names)
	if os.Getenv("GOVC_DEBUG_LOOPS") != "" && e.dry == 0 {
		fmt.Fprintf(os.Stderr, "loop %d of %s modifies: %v\n", li.ord, fr.key, names)
	}
	return names
}

func (fr *Frame) bindErr(c *Clause, err error) {
	fr.e.g.reportBindErr(fr.key, c, err)
}

// record the state flowing along edge b -> succ position si
func (fr *Frame) flow(b *ssa.BasicBlock, si int, st *State) {
	succ := b.Succs[si]
	if fr.dryStates != nil {
		*fr.dryStates = append(*fr.dryStates, st)
	}
	if li := fr.loops[succ]; li != nil && li.blocks[b] && succ.Dominates(b) {
		// back edge: check invariant preservation
		if fr.dryHeader == succ || fr.e.dry > 0 && fr.inDryOf(succ) {
			return
		}
		fr.backEdge(b, succ, li, st)
		return
	}
	fr.edge[[2]int{b.Index, si}] = st
}

func (fr *Frame) inDryOf(h *ssa.BasicBlock) bool { return fr.dryHeader == h }

func (fr *Frame) backEdge(b, h *ssa.BasicBlock, li *loopInfo, st *State) {
	e := fr.e
	ls := fr.loopSpec(li)
	if e.dry > 0 {
		return
	}
	if fr.isTop {
		// vacuity guard: an iteration of the loop can complete under the assumed invariants
		if vo := e.oblige("vacuity", fmt.Sprintf("loop%d body can complete (block %d)", li.ord, b.Index), "true", st.pc, nil, blockPos(h), ""); vo != nil {
			vo.Expect = "sat"
		}
	}
	if ls == nil {
		fr.backEdgeFrames(h, li, st)
		return
	}
	// phi values along this edge
	pi := -1
	for i, p := range h.Preds {
		if p == b {
			pi = i
		}
	}
	override := map[ssa.Value]*Val{}
	for _, in := range h.Instrs {
		phi, ok := in.(*ssa.Phi)
		if !ok {
			break
		}
		override[phi] = fr.val(phi.Edges[pi])
	}
	for _, c := range ls.Invs {
		t, err := fr.evalClause(c, st, fr.entry, h, override)
		if err != nil {
			fr.bindErr(c, err)
			continue
		}
		e.oblige("inv.preserved", fmt.Sprintf("loop%d:%s", li.ord, c.Label), st.pc, t, c.Props, blockPos(h), "")
	}
	fr.backEdgeFrames(h, li, st)
	if ls.Decreases != "" && fr.decr0[h] != "" {
		t, err := fr.evalExprStr(ls.Decreases, st, fr.entry, h, override)
		if err == nil {
			e.oblige("decreases", fmt.Sprintf("loop%d", li.ord), st.pc, "(and (<= 0 "+fr.decr0[h]+") (< "+t.T+" "+fr.decr0[h]+"))", nil, blockPos(h), "")
		}
	}
}

// ---------- instruction execution ----------

func (fr *Frame) exec(in ssa.Instruction, st *State) *State {
	e := fr.e
	switch x := in.(type) {
	case *ssa.DebugRef:
		return st
	case *ssa.Phi:
		return st // handled at block entry
	case *ssa.If:
		c := fr.val(x.Cond).T
		b := x.Block()
		s0, s1 := st.clone(), st.clone()
		s0.pc = e.define(fmt.Sprintf("pc_%s_e%d_0", fr.prefix, b.Index), "Bool", sAnd(st.pc, c))
		s1.pc = e.define(fmt.Sprintf("pc_%s_e%d_1", fr.prefix, b.Index), "Bool", sAnd(st.pc, sNot(c)))
		fr.flow(b, 0, s0)
		fr.flow(b, 1, s1)
		return nil
	case *ssa.Jump:
		fr.flow(x.Block(), 0, st)
		return nil
	case *ssa.Return:
		var vals []*Val
		for _, r := range x.Results {
			vals = append(vals, fr.val(r))
		}
		if fr.dryStates != nil {
			*fr.dryStates = append(*fr.dryStates, st)
		}
		fr.rets = append(fr.rets, retRec{st: st, vals: vals, pos: x.Pos()})
		return nil
	case *ssa.Panic:
		if !(fr.topSpecPanicsOK()) {
			e.oblige("safety", "panic unreachable: "+fr.srcText(x.Pos()), st.pc, "false", nil, x.Pos(), "explicit panic")
		}
		return nil
	case *ssa.RunDefers:
		return fr.runDefers(st)
	case *ssa.Defer:
		rec := deferRec{instr: x, flag: e.define("deferred_"+fr.prefix, "Bool", st.pc)}
		for _, a := range x.Call.Args {
			rec.args = append(rec.args, fr.val(a))
		}
		rec.recv = fr.val(x.Call.Value)
		fr.defers = append(fr.defers, rec)
		return st
	case *ssa.Go:
		e.abstr["go statement skipped in "+fr.key] = true
		return st
	case *ssa.Store:
		fr.storeInstr(x, st)
		return st
	case *ssa.MapUpdate:
		fr.mapUpdate(x, st)
		return st
	case *ssa.Send:
		return st
	case ssa.Value:
		fr.execValue(x, st)
		if fr.stopped {
			fr.stopped = false
			return nil
		}
		return st
	}
	e.abstr[fmt.Sprintf("unhandled instruction %T in %s", in, fr.key)] = true
	return st
}

func (fr *Frame) topSpecPanicsOK() bool {
	for f := fr; f != nil; f = f.parent {
		if f.spec != nil && f.spec.PanicsOK {
			return true
		}
	}
	return false
}

func (fr *Frame) storeInstr(x *ssa.Store, st *State) {
	p := fr.val(x.Addr)
	v := fr.val(x.Val)
	fr.nilCheck(st, x.Addr, p, x.Pos(), "store")
	// propagate static descriptors through cells (closures stored in locals)
	if loc := fr.ptrLoc(p); loc != nil && loc.Kind == locCell && (v.Clo != nil || v.Loc != nil) {
		fr.cellMeta[loc.Base] = v
	}
	if loc := fr.ptrLoc(p); loc != nil && loc.Kind == locCell {
		if fr.e.cellVal == nil {
			fr.e.cellVal = map[string]string{}
		}
		fr.e.cellVal[loc.Base] = v.T
	}
	fr.store(st, p, v, x.Pos())
}

func (fr *Frame) execValue(x ssa.Value, st *State) {
	e := fr.e
	switch v := x.(type) {
	case *ssa.Alloc:
		fr.alloc(v, st)
	case *ssa.BinOp:
		fr.binop(v, st)
	case *ssa.UnOp:
		fr.unop(v, st)
	case *ssa.Call:
		res := fr.call(v, v.Common(), st, v.Pos())
		if res != nil {
			fr.vals[v] = res
		}
	case *ssa.ChangeType:
		src := fr.val(v.X)
		nv := *src
		nv.GoT = v.Type()
		fr.vals[v] = &nv
	case *ssa.ChangeInterface:
		src := fr.val(v.X)
		nv := *src
		nv.GoT = v.Type()
		fr.vals[v] = &nv
	case *ssa.Convert:
		fr.convert(v, st)
	case *ssa.MultiConvert:
		fr.havocVal(v, st)
	case *ssa.Extract:
		t := fr.val(v.Tuple)
		if t.Tup != nil && v.Index < len(t.Tup) {
			fr.vals[v] = t.Tup[v.Index]
		} else {
			fr.havocVal(v, st)
		}
	case *ssa.Field:
		s := fr.val(v.X)
		stt := v.X.Type()
		if e.isOpaqueStruct(stt) {
			fr.havocVal(v, st)
			return
		}
		ds := e.sortOf(stt)
		fr.bind(v, fmt.Sprintf("(%s_%d %s)", ds, v.Field, s.T))
	case *ssa.FieldAddr:
		fr.fieldAddr(v, st)
	case *ssa.Index:
		fr.havocVal(v, st)
	case *ssa.IndexAddr:
		fr.indexAddr(v, st)
	case *ssa.Lookup:
		fr.lookup(v, st)
	case *ssa.MakeChan:
		r := e.allocRef(st, "chan")
		fr.vals[v] = &Val{T: r, S: "Int", GoT: v.Type()}
	case *ssa.MakeClosure:
		clo := &Closure{Fn: v.Fn.(*ssa.Function)}
		for _, b := range v.Bindings {
			clo.Bind = append(clo.Bind, fr.val(b))
		}
		r := e.allocRef(st, "closure")
		fr.vals[v] = &Val{T: r, S: "Int", GoT: v.Type(), Clo: clo}
	case *ssa.MakeInterface:
		fr.makeInterface(v, st)
	case *ssa.MakeMap:
		r := e.allocRef(st, "map")
		m := v.Type().Underlying().(*types.Map)
		dom, val, cnt, ks, vs := e.mapComps(m)
		ds, vsrt := "(Array Int (Array "+ks+" Bool))", "(Array Int (Array "+ks+" "+vs+"))"
		e.set(st, dom, ds, sStore(e.get(st, dom, ds), r, "((as const (Array "+ks+" Bool)) false)"))
		e.set(st, val, vsrt, sStore(e.get(st, val, vsrt), r, "((as const (Array "+ks+" "+vs+")) "+e.zero(m.Elem())+")"))
		e.set(st, cnt, "(Array Int Int)", sStore(e.get(st, cnt, "(Array Int Int)"), r, "0"))
		fr.vals[v] = &Val{T: r, S: "Int", GoT: v.Type()}
	case *ssa.MakeSlice:
		fr.makeSlice(v, st)
	case *ssa.Slice:
		fr.sliceInstr(v, st)
	case *ssa.SliceToArrayPointer:
		fr.havocVal(v, st)
	case *ssa.TypeAssert:
		fr.typeAssert(v, st)
	case *ssa.Range:
		src := fr.val(v.X)
		nv := *src
		nv.GoT = v.X.Type()
		fr.vals[v] = &nv
		fr.rangeSrc[v] = v.X
		if m, ok := v.X.Type().Underlying().(*types.Map); ok {
			ks := e.sortOf(m.Key())
			seenC := "Seen_" + san(fr.prefix+"_"+v.Name())
			e.set(st, seenC, "(Array "+ks+" Bool)", "((as const (Array "+ks+" Bool)) false)")
			fr.seenComp[v] = seenC
			// number of keys visited so far, and the domain of the map when the iteration started
			e.set(st, "SeenN_"+san(fr.prefix+"_"+v.Name()), "Int", "0")
			dom, _, _, _, _ := e.mapComps(m)
			if fr.rangeDom == nil {
				fr.rangeDom = map[*ssa.Range]string{}
			}
			fr.rangeDom[v] = sSel(e.get(st, dom, "(Array Int (Array "+ks+" Bool))"), src.T)
		}
	case *ssa.Next:
		fr.nextInstr(v, st)
	case *ssa.Select:
		fr.havocVal(v, st)
		e.abstr["select is a non-deterministic choice in "+fr.key] = true
	default:
		fr.havocVal(x, st)
		e.abstr[fmt.Sprintf("unhandled value %T in %s", x, fr.key)] = true
	}
}

func (fr *Frame) alloc(v *ssa.Alloc, st *State) {
	e := fr.e
	el := v.Type().Underlying().(*types.Pointer).Elem()
	r := e.allocRef(st, fr.name(v))
	if fr.root().isTop && v.Heap {
		e.localRefs[r] = true
	}
	val := &Val{T: r, S: "Int", GoT: v.Type()}
	e.zeroGhost(st, el, r)
	switch u := el.Underlying().(type) {
	case *types.Struct:
		val.Loc = &Loc{Kind: locStruct, Base: r, GoT: el}
		for i := 0; i < u.NumFields(); i++ {
			ft := u.Field(i).Type()
			if _, isSt := ft.Underlying().(*types.Struct); isSt {
				e.zeroGhost(st, ft, "("+e.fpFun(typeKey(e.g, el), u.Field(i).Name())+" "+r+")")
			}
		}
		if !e.isOpaqueStruct(el) {
			for i := 0; i < u.NumFields(); i++ {
				c, cs, ft := e.fieldComp(el, i)
				srt := "(Array Int " + cs + ")"
				e.set(st, c, srt, sStore(e.get(st, c, srt), r, e.zero(ft)))
			}
		}
	case *types.Array:
		val.Loc = &Loc{Kind: locStruct, Base: r, GoT: el}
		if e.ownerOn() {
			e.setOwner(st, r, "1")
		}
		c, es := e.elemComp(u.Elem())
		srt := arrSort(es)
		e.set(st, c, srt, sStore(e.get(st, c, srt), r, "((as const (Array Int "+es+")) "+e.zero(u.Elem())+")"))
	default:
		s := e.sortOf(el)
		comp := "C_" + san(s)
		srt := "(Array Int " + s + ")"
		e.set(st, comp, srt, sStore(e.get(st, comp, srt), r, e.zero(el)))
		val.Loc = &Loc{Kind: locCell, Comp: comp, CS: s, Base: r, GoT: el}
	}
	fr.vals[v] = val
}

func (fr *Frame) fieldAddr(v *ssa.FieldAddr, st *State) {
	e := fr.e
	p := fr.val(v.X)
	fr.nilCheck(st, v.X, p, v.Pos(), "field access")
	stt := v.X.Type().Underlying().(*types.Pointer).Elem()
	u := stt.Underlying().(*types.Struct)
	f := u.Field(v.Field)
	pl := fr.ptrLoc(p)
	skey := typeKey(e.g, stt)
	fp := e.fpFun(skey, f.Name())
	val := &Val{T: "(" + fp + " " + p.T + ")", S: "Int", GoT: v.Type()}
	if pl != nil && pl.Kind != locStruct {
		// pointer to a struct stored by value inside another location: extend the accessor path
		if e.isOpaqueStruct(stt) {
			val.Loc = nil
			fr.vals[v] = val
			return
		}
		ds := e.sortOf(stt)
		var fss []Sort
		for i := 0; i < u.NumFields(); i++ {
			fss = append(fss, e.sortOf(u.Field(i).Type()))
		}
		nl := *pl
		nl.Path = append(append([]accessor{}, pl.Path...), accessor{DT: ds, Idx: v.Field, N: u.NumFields(), FS: fss})
		nl.GoT = f.Type()
		nl.StructKey, nl.Field = "", ""
		val.Loc = &nl
		fr.vals[v] = val
		return
	}
	c, cs, ft := e.fieldComp(stt, v.Field)
	val.Loc = &Loc{Kind: locField, Comp: c, CS: cs, Base: p.T, GoT: ft, StructKey: skey, Field: f.Name()}
	fr.vals[v] = val
}

func (fr *Frame) indexAddr(v *ssa.IndexAddr, st *State) {
	e := fr.e
	x := fr.val(v.X)
	idx := fr.val(v.Index)
	switch t := v.X.Type().Underlying().(type) {
	case *types.Slice:
		e.oblige("safety", "index in range: "+fr.srcText(v.Pos()), st.pc,
			"(and (<= 0 "+idx.T+") (< "+idx.T+" (s-len "+x.T+")))", nil, v.Pos(), "")
		c, es := e.elemComp(t.Elem())
		base, off := "(s-arr "+x.T+")", "(ix (s-off "+x.T+") "+idx.T+")"
		fr.vals[v] = &Val{T: "(ep " + base + " " + off + ")", S: "Int", GoT: v.Type(),
			Loc: &Loc{Kind: locElem, Comp: c, CS: es, Base: base, Idx: off, GoT: t.Elem()}}
	case *types.Pointer:
		arr := t.Elem().Underlying().(*types.Array)
		fr.nilCheck(st, v.X, x, v.Pos(), "array index")
		e.oblige("safety", "index in range: "+fr.srcText(v.Pos()), st.pc,
			fmt.Sprintf("(and (<= 0 %s) (< %s %d))", idx.T, idx.T, arr.Len()), nil, v.Pos(), "")
		c, es := e.elemComp(arr.Elem())
		fr.vals[v] = &Val{T: "(ep " + x.T + " " + idx.T + ")", S: "Int", GoT: v.Type(),
			Loc: &Loc{Kind: locElem, Comp: c, CS: es, Base: x.T, Idx: idx.T, GoT: arr.Elem()}}
	default:
		fr.havocVal(v, st)
	}
}

func (fr *Frame) makeSlice(v *ssa.MakeSlice, st *State) {
	e := fr.e
	ln, cp := fr.val(v.Len), fr.val(v.Cap)
	e.oblige("safety", "make size: "+fr.srcText(v.Pos()), st.pc,
		"(and (<= 0 "+ln.T+") (<= "+ln.T+" "+cp.T+") (<= "+cp.T+" 17592186044416))", nil, v.Pos(), "negative or oversized make")
	r := e.allocRef(st, fr.name(v)+"_arr")
	el := v.Type().Underlying().(*types.Slice).Elem()
	c, es := e.elemComp(el)
	srt := arrSort(es)
	e.set(st, c, srt, sStore(e.get(st, c, srt), r, "((as const (Array Int "+es+")) "+e.zero(el)+")"))
	e.lambda = true
	// elements that are structs with ghost state (e.g. mutexes) start with zero ghost state
	if _, isSt := el.Underlying().(*types.Struct); isSt {
		key := typeKey(e.g, el)
		var gn []string
		for k := range e.g.specs.Ghosts {
			gn = append(gn, k)
		}
		sort.Strings(gn)
		for _, k := range gn {
			g := e.g.specs.Ghosts[k]
			if g.Type != key {
				continue
			}
			gs := specSort(g.Sort)
			z := "0"
			if gs == "Bool" {
				z = "false"
			} else if gs != "Int" {
				continue
			}
			comp := "G_" + san(key) + "_" + g.Name
			cur := e.get(st, comp, "(Array Int "+gs+")")
			e.ctr++
			q := fmt.Sprintf("gz!%d", e.ctr)
			e.assume(st.pc, fmt.Sprintf("(forall ((%s Int)) (! (= (select %s (ep %s %s)) %s) :pattern ((ep %s %s))))", q, cur, r, q, z, r, q))
		}
	}
	fr.bind(v, "(mk-slice "+r+" 0 "+ln.T+" "+cp.T+")")
	if e.ownerOn() {
		e.setOwner(st, r, "1")
	}
}

func (fr *Frame) sliceInstr(v *ssa.Slice, st *State) {
	e := fr.e
	x := fr.val(v.X)
	get := func(a ssa.Value) string {
		if a == nil {
			return ""
		}
		return fr.val(a).T
	}
	lo, hi, mx := get(v.Low), get(v.High), get(v.Max)
	if lo == "" {
		lo = "0"
	}
	switch t := v.X.Type().Underlying().(type) {
	case *types.Slice:
		if hi == "" {
			hi = "(s-len " + x.T + ")"
		}
		capT := "(s-cap " + x.T + ")"
		if mx == "" {
			mx = capT
		}
		e.oblige("safety", "slice bounds: "+fr.srcText(v.Pos()), st.pc,
			"(and (<= 0 "+lo+") (<= "+lo+" "+hi+") (<= "+hi+" "+mx+") (<= "+mx+" "+capT+"))", nil, v.Pos(), "")
		fr.bind(v, "(mk-slice (s-arr "+x.T+") (+ (s-off "+x.T+") "+lo+") (- "+hi+" "+lo+") (- "+mx+" "+lo+"))")
	case *types.Pointer:
		arr := t.Elem().Underlying().(*types.Array)
		n := fmt.Sprint(arr.Len())
		if hi == "" {
			hi = n
		}
		if mx == "" {
			mx = n
		}
		fr.nilCheck(st, v.X, x, v.Pos(), "slice of array pointer")
		e.oblige("safety", "slice bounds: "+fr.srcText(v.Pos()), st.pc,
			"(and (<= 0 "+lo+") (<= "+lo+" "+hi+") (<= "+hi+" "+mx+") (<= "+mx+" "+n+"))", nil, v.Pos(), "")
		fr.bind(v, "(mk-slice "+x.T+" "+lo+" (- "+hi+" "+lo+") (- "+mx+" "+lo+"))")
	case *types.Basic: // string
		if hi == "" {
			hi = "(strlen " + x.T + ")"
		}
		e.oblige("safety", "slice bounds: "+fr.srcText(v.Pos()), st.pc,
			"(and (<= 0 "+lo+") (<= "+lo+" "+hi+") (<= "+hi+" (strlen "+x.T+")))", nil, v.Pos(), "")
		val := fr.havocVal(v, st)
		e.assume(st.pc, "(= (strlen "+val.T+") (- "+hi+" "+lo+"))")
	default:
		fr.havocVal(v, st)
	}
}

func (e *Enc) tagOf(t types.Type) int {
	k := t.String()
	if id, ok := e.g.tags[k]; ok {
		return id
	}
	for i, o := range e.g.tagTypes {
		if types.Identical(o, t) {
			return i + 1
		}
	}
	id := len(e.g.tagTypes) + 1
	e.g.tags[k] = id
	e.g.tagTypes = append(e.g.tagTypes, t)
	return id
}

func isPointerLike(t types.Type) bool {
	switch t.Underlying().(type) {
	case *types.Pointer, *types.Map, *types.Chan, *types.Signature:
		return true
	}
	return false
}

func (fr *Frame) makeInterface(v *ssa.MakeInterface, st *State) {
	e := fr.e
	x := fr.val(v.X)
	xt := v.X.Type()
	tag := e.tagOf(xt)
	if types.Identical(v.Type().Underlying(), types.Universe.Lookup("error").Type().Underlying()) {
		// a dynamically created error: non-nil, distinct from the sentinel constants
		tag = e.tagOf(xt)
	}
	if isPointerLike(xt) {
		nv := fr.bind(v, fmt.Sprintf("(mk-iface %d %s)", tag, x.T))
		nv.Clo = x.Clo
		fr.boxed[nv.T] = x
		return
	}
	// box a non-pointer value
	r := e.allocRef(st, "box")
	s := e.sortOf(xt)
	comp := "Bx_" + san(s)
	srt := "(Array Int " + s + ")"
	e.set(st, comp, srt, sStore(e.get(st, comp, srt), r, x.T))
	nv := fr.bind(v, fmt.Sprintf("(mk-iface %d %s)", tag, r))
	fr.boxed[nv.T] = x
}

func (fr *Frame) typeAssert(v *ssa.TypeAssert, st *State) {
	e := fr.e
	x := fr.val(v.X)
	at := v.AssertedType
	var okT string
	if _, isIface := at.Underlying().(*types.Interface); isIface {
		// interface-to-interface assertion: succeeds iff non-nil (closed world: implementers satisfy)
		okT = "(not (= (i-tag " + x.T + ") 0))"
		if v.CommaOk {
			okc := e.define(fr.name(v)+"_ok", "Bool", okT)
			fr.vals[v] = &Val{S: "Tuple", GoT: v.Type(), Tup: []*Val{{T: x.T, S: "Iface", GoT: at}, {T: okc, S: "Bool"}}}
			return
		}
		e.oblige("safety", "type assertion: "+fr.srcText(v.Pos()), st.pc, okT, nil, v.Pos(), "")
		nv := *x
		nv.GoT = at
		fr.vals[v] = &nv
		return
	}
	tag := e.tagOf(at)
	okT = fmt.Sprintf("(= (i-tag %s) %d)", x.T, tag)
	var res string
	if isPointerLike(at) {
		res = "(i-val " + x.T + ")"
	} else {
		s := e.sortOf(at)
		res = sSel(e.get(st, "Bx_"+san(s), "(Array Int "+s+")"), "(i-val "+x.T+")")
	}
	if v.CommaOk {
		okc := e.define(fr.name(v)+"_ok", "Bool", okT)
		rv := e.define(fr.name(v)+"_v", e.sortOf(at), sIte(okc, res, e.zero(at)))
		e.assume(st.pc, e.wf(at, rv, e.next(st)))
		fr.vals[v] = &Val{S: "Tuple", GoT: v.Type(), Tup: []*Val{{T: rv, S: e.sortOf(at), GoT: at}, {T: okc, S: "Bool"}}}
		return
	}
	e.oblige("safety", "type assertion: "+fr.srcText(v.Pos()), st.pc, okT, nil, v.Pos(), "")
	nv := fr.bind(v, res)
	e.assume(st.pc, e.wf(at, nv.T, e.next(st)))
}

func (fr *Frame) lookup(v *ssa.Lookup, st *State) {
	e := fr.e
	x := fr.val(v.X)
	k := fr.val(v.Index)
	m, ok := v.X.Type().Underlying().(*types.Map)
	if !ok {
		// string index
		e.oblige("safety", "index in range: "+fr.srcText(v.Pos()), st.pc,
			"(and (<= 0 "+k.T+") (< "+k.T+" (strlen "+x.T+")))", nil, v.Pos(), "")
		fr.havocVal(v, st)
		return
	}
	dom, val, _, ks, vs := e.mapComps(m)
	fr.guardMapRead(st, v.X, v.Pos())
	has := sSel(sSel(e.get(st, dom, "(Array Int (Array "+ks+" Bool))"), x.T), k.T)
	// nil map reads yield zero values
	has = sAnd("(not (= "+x.T+" 0))", has)
	// absent keys (and the nil map) read as the zero value: invariant of every Mv component
	raw := sSel(sSel(e.get(st, val, "(Array Int (Array "+ks+" "+vs+"))"), x.T), k.T)
	res := e.define(fr.name(v)+"_v", vs, raw)
	e.assume(st.pc, sImp(sNot(has), sEq(res, e.zero(m.Elem()))))
	e.assume(st.pc, e.wf(m.Elem(), res, e.next(st)))
	if v.CommaOk {
		okc := e.define(fr.name(v)+"_ok", "Bool", has)
		fr.vals[v] = &Val{S: "Tuple", GoT: v.Type(), Tup: []*Val{{T: res, S: vs, GoT: m.Elem()}, {T: okc, S: "Bool"}}}
		return
	}
	fr.vals[v] = &Val{T: res, S: vs, GoT: m.Elem()}
}

func (fr *Frame) guardMapRead(st *State, m ssa.Value, pos token.Pos) {}

func (fr *Frame) mapUpdate(x *ssa.MapUpdate, st *State) {
	e := fr.e
	mv := fr.val(x.Map)
	k := fr.val(x.Key)
	v := fr.val(x.Value)
	m := x.Map.Type().Underlying().(*types.Map)
	e.oblige("safety", "assignment to nil map: "+fr.srcText(x.Pos()), st.pc, "(not (= "+mv.T+" 0))", nil, x.Pos(), "")
	e.mapStore(st, m, mv.T, k.T, v.T)
}

func (e *Enc) mapStore(st *State, m *types.Map, mt, kt, vt string) {
	dom, val, cnt, ks, vs := e.mapComps(m)
	ds, vsrt := "(Array Int (Array "+ks+" Bool))", "(Array Int (Array "+ks+" "+vs+"))"
	d := e.get(st, dom, ds)
	had := sSel(sSel(d, mt), kt)
	c := e.get(st, cnt, "(Array Int Int)")
	e.set(st, cnt, "(Array Int Int)", sStore(c, mt, sIte(had, sSel(c, mt), "(+ "+sSel(c, mt)+" 1)")))
	e.set(st, dom, ds, sStore(d, mt, sStore(sSel(d, mt), kt, "true")))
	vv := e.get(st, val, vsrt)
	e.set(st, val, vsrt, sStore(vv, mt, sStore(sSel(vv, mt), kt, vt)))
}

func (e *Enc) mapDelete(st *State, m *types.Map, mt, kt string) {
	dom, val, cnt, ks, vs := e.mapComps(m)
	ds := "(Array Int (Array " + ks + " Bool))"
	vsrt := "(Array Int (Array " + ks + " " + vs + "))"
	vv := e.get(st, val, vsrt)
	e.set(st, val, vsrt, sStore(vv, mt, sStore(sSel(vv, mt), kt, e.zero(m.Elem()))))
	d := e.get(st, dom, ds)
	had := sAnd("(not (= "+mt+" 0))", sSel(sSel(d, mt), kt))
	c := e.get(st, cnt, "(Array Int Int)")
	e.set(st, cnt, "(Array Int Int)", sStore(c, mt, sIte(had, "(- "+sSel(c, mt)+" 1)", sSel(c, mt))))
	e.set(st, dom, ds, sStore(d, mt, sStore(sSel(d, mt), kt, "false")))
}

func (fr *Frame) nextInstr(v *ssa.Next, st *State) {
	e := fr.e
	if v.IsString {
		fr.havocVal(v, st)
		return
	}
	rng := v.Iter.(*ssa.Range)
	mv := fr.val(rng)
	m := rng.X.Type().Underlying().(*types.Map)
	dom, val, _, ks, vs := e.mapComps(m)
	ok := e.fresh(fr.name(v)+"_ok", "Bool")
	k := e.fresh(fr.name(v)+"_k", ks)
	has := sAnd("(not (= "+mv.T+" 0))", sSel(sSel(e.get(st, dom, "(Array Int (Array "+ks+" Bool))"), mv.T), k))
	vv := e.define(fr.name(v)+"_v", vs, sSel(sSel(e.get(st, val, "(Array Int (Array "+ks+" "+vs+"))"), mv.T), k))
	e.assume(st.pc, sImp(ok, has))
	e.assume(st.pc, sImp(ok, sAnd(e.wf(m.Key(), k, e.next(st)), e.wf(m.Elem(), vv, e.next(st)))))
	// ghost $seen: visited keys; ok=false only when every key of the domain has been visited
	seenC := "Seen_" + san(fr.prefix+"_"+rng.Name())
	seenS := "(Array " + ks + " Bool)"
	seen := e.get(st, seenC, seenS)
	e.assume(st.pc, sImp(ok, sNot(sSel(seen, k))))
	// the iteration ends only when every key of the map has been visited
	e.ctr++
	qk := fmt.Sprintf("sk!%d", e.ctr)
	domT := sSel(e.get(st, dom, "(Array Int (Array "+ks+" Bool))"), mv.T)
	e.assume(st.pc, sImp(sNot(ok), fmt.Sprintf("(forall ((%s %s)) (! (=> (and (not (= %s 0)) (select %s %s)) (select %s %s)) :pattern ((select %s %s))))", qk, ks, mv.T, domT, qk, seen, qk, domT, qk)))
	e.set(st, seenC, seenS, sIte(ok, sStore(seen, k, "true"), seen))
	fr.seenComp[rng] = seenC
	// a further key exists only while fewer keys have been visited than the map holds (as long as the loop has
	// not changed the key set of the map)
	cntC := "SeenN_" + san(fr.prefix+"_"+rng.Name())
	cnt := e.get(st, cntC, "Int")
	_, _, cntComp, _, _ := e.mapComps(m)
	if d0, okd := fr.rangeDom[rng]; okd {
		size := sSel(e.get(st, cntComp, "(Array Int Int)"), mv.T)
		e.assume(st.pc, sImp(sAnd(ok, sEq(domT, d0)), "(< "+cnt+" "+size+")"))
	}
	e.assume(st.pc, "(>= "+cnt+" 0)")
	e.set(st, cntC, "Int", sIte(ok, "(+ "+cnt+" 1)", cnt))
	fr.vals[v] = &Val{S: "Tuple", GoT: v.Type(), Tup: []*Val{{T: ok, S: "Bool"}, {T: k, S: ks, GoT: m.Key()}, {T: vv, S: vs, GoT: m.Elem()}}}
}

func (fr *Frame) convert(v *ssa.Convert, st *State) {
	e := fr.e
	x := fr.val(v.X)
	from, to := v.X.Type().Underlying(), v.Type().Underlying()
	fb, fok := from.(*types.Basic)
	tb, tok := to.(*types.Basic)
	switch {
	case fok && tok && fb.Info()&types.IsInteger != 0 && tb.Info()&types.IsInteger != 0:
		fr.bind(v, wrapInt(x.T, v.Type()))
	case fok && tok && fb.Info()&types.IsString != 0 && tb.Info()&types.IsString != 0:
		fr.bind(v, x.T)
	case tok && tb.Info()&types.IsString != 0:
		// []byte -> string or rune -> string : uninterpreted function of the content
		if _, isSl := from.(*types.Slice); isSl {
			c, es := e.elemComp(from.(*types.Slice).Elem())
			arr := sSel(e.get(st, c, arrSort(es)), "(s-arr "+x.T+")")
			e.needStrOf()
			nv := fr.bind(v, "(strOf "+arr+" (s-off "+x.T+") (s-len "+x.T+"))")
			e.assume(st.pc, "(= (strlen "+nv.T+") (s-len "+x.T+"))")
			return
		}
		fr.havocVal(v, st)
	case fok && fb.Info()&types.IsString != 0:
		if sl, isSl := to.(*types.Slice); isSl {
			// string -> []byte : fresh array whose content maps back to the string
			r := e.allocRef(st, fr.name(v)+"_arr")
			c, es := e.elemComp(sl.Elem())
			srt := arrSort(es)
			cont := e.fresh("strbytes", "(Array Int "+es+")")
			e.set(st, c, srt, sStore(e.get(st, c, srt), r, cont))
			nv := fr.bind(v, "(mk-slice "+r+" 0 (strlen "+x.T+") (strlen "+x.T+"))")
			e.needStrOf()
			e.assume(st.pc, "(= (strOf "+cont+" 0 (strlen "+x.T+")) "+x.T+")")
			_ = nv
			if e.ownerOn() {
				e.setOwner(st, r, "1")
			}
			return
		}
		fr.havocVal(v, st)
	default:
		fr.havocVal(v, st) // floats etc.
	}
}

func (e *Enc) needStrOf() {
	if !e.declared["strOf"] {
		e.declared["strOf"] = true
		e.declRaw("(declare-fun strOf ((Array Int Int) Int Int) Int)")
	}
}

func (fr *Frame) unop(v *ssa.UnOp, st *State) {
	e := fr.e
	x := fr.val(v.X)
	switch v.Op {
	case token.MUL:
		fr.nilCheck(st, v.X, x, v.Pos(), "load")
		r := fr.load(st, x, v.Pos())
		nv := fr.bind(v, r.T)
		nv.Src = r.Src
		nxt := e.next(st)
		if loc := fr.ptrLoc(x); loc != nil && loc.Comp != "" {
			// a value read from the entry version of a component existed at function entry
			if cur, ok := st.heap[loc.Comp]; (!ok || cur == loc.Comp+"!0") && loc.Base != "" {
				// ... provided the containing object itself existed at entry (contracts describe the
				// contents of objects allocated by a callee through the same component)
				nxt = "(ite (and (< 0 " + loc.Base + ") (< " + loc.Base + " $next!0)) $next!0 " + nxt + ")"
			}
		}
		if x.Loc != nil && x.Loc.Kind == locGlobal {
			// address of a global used directly (e.g. blockPool.Get()): provenance on the pointer
		}
		e.assume(st.pc, e.wf(v.Type(), nv.T, nxt))
		if loc := fr.ptrLoc(x); loc != nil && loc.Kind == locCell {
			if m, ok := fr.cellMeta[loc.Base]; ok {
				nv.Clo, nv.Loc = m.Clo, m.Loc
			}
			if m, ok := e.cellVal[loc.Base]; ok && (e.localRefs[m] || fr.isUnshared(m)) {
				e.localRefs[nv.T] = true
			}
		}
	case token.NOT:
		fr.bind(v, sNot(x.T))
	case token.SUB:
		fr.bind(v, wrapInt("(- "+x.T+")", v.Type()))
	case token.XOR:
		bits, signed, _ := intBits(v.Type())
		if signed {
			fr.bind(v, "(- (- "+x.T+") 1)")
		} else {
			fr.bind(v, "(- "+pow2(bits)+" 1 "+x.T+")")
		}
	case token.ARROW:
		fr.havocVal(v, st)
	default:
		fr.havocVal(v, st)
	}
}

func constInt(v ssa.Value) (int64, bool) {
	c, ok := v.(*ssa.Const)
	if !ok || c.Value == nil {
		return 0, false
	}
	if c.Value.Kind().String() != "Int" {
		return 0, false
	}
	n, exact := c.Int64(), true
	if c.Uint64() > 1<<62 {
		exact = false
	}
	return n, exact
}

func (fr *Frame) binop(v *ssa.BinOp, st *State) {
	e := fr.e
	x, y := fr.val(v.X), fr.val(v.Y)
	t := v.X.Type()
	b, isBasic := t.Underlying().(*types.Basic)
	isInt := isBasic && b.Info()&types.IsInteger != 0
	isFloat := isBasic && b.Info()&types.IsFloat != 0
	isStr := isBasic && b.Info()&types.IsString != 0
	cmp := func(op string) { fr.bind(v, "("+op+" "+x.T+" "+y.T+")") }
	switch v.Op {
	case token.EQL, token.NEQ:
		if isFloat {
			fr.havocVal(v, st)
			return
		}
		eq := sEq(x.T, y.T)
		if _, isSl := t.Underlying().(*types.Slice); isSl {
			// only comparison with nil is legal
			other := x
			if c, ok := v.X.(*ssa.Const); ok && c.Value == nil {
				other = y
			}
			eq = "(= (s-arr " + other.T + ") 0)"
		}
		if _, isIf := t.Underlying().(*types.Interface); isIf {
			eq = sEq(x.T, y.T)
		}
		if v.Op == token.NEQ {
			eq = sNot(eq)
		}
		fr.bind(v, eq)
		return
	case token.LSS:
		if !isInt {
			fr.havocVal(v, st)
			return
		}
		cmp("<")
		return
	case token.LEQ:
		if !isInt {
			fr.havocVal(v, st)
			return
		}
		cmp("<=")
		return
	case token.GTR:
		if !isInt {
			fr.havocVal(v, st)
			return
		}
		cmp(">")
		return
	case token.GEQ:
		if !isInt {
			fr.havocVal(v, st)
			return
		}
		cmp(">=")
		return
	}
	if isStr && v.Op == token.ADD {
		nv := fr.havocVal(v, st)
		e.assume(st.pc, "(= (strlen "+nv.T+") (+ (strlen "+x.T+") (strlen "+y.T+")))")
		return
	}
	if !isInt {
		if isBasic && b.Info()&types.IsBoolean != 0 {
			switch v.Op {
			case token.AND, token.LAND:
				fr.bind(v, sAnd(x.T, y.T))
				return
			case token.OR, token.LOR:
				fr.bind(v, sOr(x.T, y.T))
				return
			}
		}
		fr.havocVal(v, st)
		return
	}
	bits, _, _ := intBits(v.Type())
	switch v.Op {
	case token.ADD:
		fr.bind(v, wrapInt("(+ "+x.T+" "+y.T+")", v.Type()))
	case token.SUB:
		fr.bind(v, wrapInt("(- "+x.T+" "+y.T+")", v.Type()))
	case token.MUL:
		fr.bind(v, wrapInt("(* "+x.T+" "+y.T+")", v.Type()))
	case token.QUO:
		e.oblige("safety", "division by zero: "+fr.srcText(v.Pos()), st.pc, "(not (= "+y.T+" 0))", nil, v.Pos(), "")
		if c, ok := constInt(v.Y); ok && c > 0 {
			_, signed, _ := intBits(v.Type())
			if !signed {
				fr.bind(v, "(div "+x.T+" "+y.T+")")
				return
			}
		}
		fr.bind(v, wrapInt("(tdiv "+x.T+" "+y.T+")", v.Type()))
	case token.REM:
		e.oblige("safety", "division by zero: "+fr.srcText(v.Pos()), st.pc, "(not (= "+y.T+" 0))", nil, v.Pos(), "")
		if c, ok := constInt(v.Y); ok && c > 0 {
			_, signed, _ := intBits(v.Type())
			if !signed {
				fr.bind(v, "(mod "+x.T+" "+y.T+")")
				return
			}
		}
		fr.bind(v, "(trem "+x.T+" "+y.T+")")
	case token.SHL:
		if c, ok := constInt(v.Y); ok && c >= 0 && c < 64 {
			fr.bind(v, wrapInt("(* "+x.T+" "+pow2(int(c))+")", v.Type()))
		} else {
			fr.bind(v, wrapInt("(bshl "+x.T+" "+y.T+")", v.Type()))
			e.abstr["non-constant shift uninterpreted in "+fr.key] = true
		}
	case token.SHR:
		if c, ok := constInt(v.Y); ok && c >= 0 && c < 64 {
			fr.bind(v, "(div "+x.T+" "+pow2(int(c))+")")
		} else {
			nv := fr.bind(v, wrapInt("(bshr "+x.T+" "+y.T+")", v.Type()))
			_ = nv
			e.abstr["non-constant shift uninterpreted in "+fr.key] = true
		}
	case token.AND:
		if c, ok := constInt(v.Y); ok && c >= 0 {
			fr.bind(v, andConst(x.T, uint64(c), bits))
		} else if c, ok := constInt(v.X); ok && c >= 0 {
			fr.bind(v, andConst(y.T, uint64(c), bits))
		} else {
			nv := fr.bind(v, wrapInt("(band "+x.T+" "+y.T+")", v.Type()))
			// sound facts about AND of non-negative numbers
			e.assume(st.pc, sImp(sAnd("(>= "+x.T+" 0)", "(>= "+y.T+" 0)"), sAnd("(<= 0 "+nv.T+")", "(<= "+nv.T+" "+x.T+")", "(<= "+nv.T+" "+y.T+")")))
			e.abstr["non-constant & uninterpreted (bounded by operands) in "+fr.key] = true
		}
	case token.OR:
		if c, ok := constInt(v.Y); ok && c >= 0 {
			fr.bind(v, orConst(x.T, uint64(c)))
		} else if c, ok := constInt(v.X); ok && c >= 0 {
			fr.bind(v, orConst(y.T, uint64(c)))
		} else {
			nv := fr.bind(v, wrapInt("(bor "+x.T+" "+y.T+")", v.Type()))
			e.assume(st.pc, sImp(sAnd("(>= "+x.T+" 0)", "(>= "+y.T+" 0)"), sAnd("(>= "+nv.T+" "+x.T+")", "(>= "+nv.T+" "+y.T+")", "(<= "+nv.T+" (+ "+x.T+" "+y.T+"))")))
			// a | (b << k) == a + (b << k) when a < 2^k: the shifted operand has k zero low bits
			for _, pr := range [][2]ssa.Value{{v.X, v.Y}, {v.Y, v.X}} {
				if k, ok := shlConst(pr[1]); ok {
					o, sh := fr.val(pr[0]), fr.val(pr[1])
					e.assume(st.pc, sImp("(and (<= 0 "+o.T+") (< "+o.T+" "+pow2(k)+"))", "(= "+nv.T+" (+ "+o.T+" "+sh.T+"))"))
				}
			}
			e.abstr["non-constant | uninterpreted (bounded by operands) in "+fr.key] = true
		}
	case token.XOR:
		fr.bind(v, wrapInt("(bxor "+x.T+" "+y.T+")", v.Type()))
		e.abstr["^ uninterpreted in "+fr.key] = true
	case token.AND_NOT:
		fr.havocVal(v, st)
	default:
		fr.havocVal(v, st)
	}
}

func andConst(x string, c uint64, bits int) string {
	if c == 0 {
		return "0"
	}
	if c&(c+1) == 0 { // 2^k-1
		k := 0
		for (c>>uint(k))&1 == 1 && k < 64 {
			k++
		}
		return "(mod " + x + " " + pow2(k) + ")"
	}
	var parts []string
	for k := 0; k < 64; k++ {
		if (c>>uint(k))&1 == 1 {
			parts = append(parts, "(* (mod (div "+x+" "+pow2(k)+") 2) "+pow2(k)+")")
		}
	}
	if len(parts) == 1 {
		return parts[0]
	}
	return "(+ " + strings.Join(parts, " ") + ")"
}

func orConst(x string, c uint64) string {
	t := x
	var adds []string
	for k := 0; k < 64; k++ {
		if (c>>uint(k))&1 == 1 {
			adds = append(adds, "(* (- 1 (mod (div "+x+" "+pow2(k)+") 2)) "+pow2(k)+")")
		}
	}
	if len(adds) == 0 {
		return t
	}
	return "(+ " + t + " " + strings.Join(adds, " ") + ")"
}

// ---------- defers ----------

func (fr *Frame) runDefers(st *State) *State {
	e := fr.e
	for i := len(fr.defers) - 1; i >= 0; i-- {
		d := fr.defers[i]
		before := st.clone()
		inner := st.clone()
		inner.pc = e.define("pc_defer_"+fr.prefix, "Bool", sAnd(st.pc, d.flag))
		fr.callCommon(&d.instr.Call, d.args, d.recv, inner, d.instr.Pos())
		// merge: effects apply only if the defer was registered
		notTaken := before
		notTaken.pc = e.define("pc_nodefer_"+fr.prefix, "Bool", sAnd(st.pc, sNot(d.flag)))
		// paths on which the deferred call does not return (panic) end here: keep the merged path condition
		if fr.stopped {
			fr.stopped = false
			st = notTaken
			continue
		}
		m := e.mergeStates("defer_"+fr.prefix, []*State{inner, notTaken})
		st = m
	}
	return st
}

type loopFrame struct {
	comp string
	sort Sort
	ent  string
}

func (fr *Frame) root() *Frame {
	f := fr
	for f.parent != nil {
		f = f.parent
	}
	return f
}

// frameCond: condition under which index var (named by prefix placeholder) of component comp must be
// unchanged by the function: existed at function entry and is not a modifies target.
func (fr *Frame) frameCond(comp string, v string) (string, bool) {
	if !fr.isTop || fr.spec == nil {
		return "", false
	}
	if strings.HasPrefix(comp, "Seen") || strings.HasPrefix(comp, "C_") || strings.HasPrefix(comp, "Bx_") || comp == "$next" {
		return "", false
	}
	if strings.HasPrefix(comp, "GG_") && fr.e.g.specs.Frameless[comp[3:]] {
		return "", false
	}
	if owner, ok := fr.repComps()[comp]; ok && owner != fr.pkgName() {
		return "", false
	}
	if fr.targets == nil {
		fr.targets = map[string][]modTarget{}
		mods := append([]string{}, fr.spec.Modifies...)
		mods = append(mods, fr.extraModifies...)
		for _, m := range mods {
			ts, err := fr.evalTargets(m, fr.entry)
			if err != nil {
				continue // reported by frameCheck
			}
			for _, t := range ts {
				fr.targets[t.Comp] = append(fr.targets[t.Comp], t)
			}
		}
	}
	cs := []string{"(< 0 " + v + ")", "(< " + v + " $next!0)"}
	if strings.HasPrefix(comp, "G_") {
		// ghost components may be keyed by interior pointers: everything that is neither a target, nor
		// an object allocated after entry, nor an interior pointer of such an object must be unchanged
		ex := []string{"(>= " + v + " $next!0)"}
		for _, f := range fr.e.fpFuns {
			ex = append(ex, "(and (= "+v+" ("+f+" ("+f+"_inv "+v+"))) (>= ("+f+"_inv "+v+") $next!0))")
		}
		cs = []string{sNot(sOr(ex...))}
	}
	for _, t := range fr.targets[comp] {
		switch t.Kind {
		case "whole":
			return "", false
		case "at":
			cs = append(cs, "(not (= "+v+" "+t.Base+"))")
		case "elems":
			cs = append(cs, "(not ("+t.In+" "+v+"))")
		case "loc":
			if t.Loc.Kind == locGlobal {
				return "", false
			}
			cs = append(cs, "(not (= "+v+" "+t.Loc.Base+"))")
		}
	}
	return sAnd(cs...), true
}

func (fr *Frame) backEdgeFrames(h *ssa.BasicBlock, li *loopInfo, st *State) {
	e := fr.e
	root := fr.root()
	for _, lf := range fr.loopFrames[h] {
		cond, ok := root.frameCond(lf.comp, "r!loop")
		if !ok {
			continue
		}
		e.declare("r!loop", "Int")
		cur := e.get(st, lf.comp, lf.sort)
		e.oblige("inv.preserved", fmt.Sprintf("loop%d:frame:%s", li.ord, lf.comp), st.pc,
			sImp(cond, sEq(sSel(cur, "r!loop"), sSel(lf.ent, "r!loop"))), nil, blockPos(h), "objects outside the modifies clause are unchanged by the loop")
	}
}

func shlConst(v ssa.Value) (int, bool) {
	for {
		switch x := v.(type) {
		case *ssa.Convert:
			v = x.X
			continue
		case *ssa.BinOp:
			if x.Op == token.SHL {
				if c, ok := constInt(x.Y); ok && c > 0 && c < 64 {
					return int(c), true
				}
			}
		}
		return 0, false
	}
}

// zeroGhost: a freshly allocated object has zero ghost state (no lock held, nothing written, ...).
func (e *Enc) zeroGhost(st *State, t types.Type, ref string) {
	key := typeKey(e.g, t)
	var names []string
	for k := range e.g.specs.Ghosts {
		names = append(names, k)
	}
	sort.Strings(names)
	for _, k := range names {
		g := e.g.specs.Ghosts[k]
		if g.Type != key {
			continue
		}
		s := specSort(g.Sort)
		var z string
		switch s {
		case "Int":
			z = "0"
		case "Bool":
			z = "false"
		default:
			continue
		}
		comp := "G_" + san(key) + "_" + g.Name
		srt := "(Array Int " + s + ")"
		e.set(st, comp, srt, sStore(e.get(st, comp, srt), ref, z))
	}
}
