package main

import (
	"fmt"
	"go/token"
	"go/types"
	"sort"
	"strings"

	"golang.org/x/tools/go/ssa"
)

func (fr *Frame) call(v ssa.Value, common *ssa.CallCommon, st *State, pos token.Pos) *Val {
	var args []*Val
	for _, a := range common.Args {
		args = append(args, fr.val(a))
	}
	return fr.callCommon(common, args, fr.val(common.Value), st, pos)
}

func (fr *Frame) tupleOrSingle(res []*Val, sig *types.Signature) *Val {
	n := sig.Results().Len()
	if n == 0 {
		return &Val{T: "0", S: "Int"}
	}
	if n == 1 {
		return res[0]
	}
	return &Val{S: "Tuple", Tup: res, GoT: sig.Results()}
}

func (fr *Frame) havocResults(sig *types.Signature, st *State, hint string) []*Val {
	e := fr.e
	var res []*Val
	for i := 0; i < sig.Results().Len(); i++ {
		t := sig.Results().At(i).Type()
		s := e.sortOf(t)
		n := e.fresh(fmt.Sprintf("%s_r%d", san(hint), i), s)
		e.assume(st.pc, e.wf(t, n, e.next(st)))
		res = append(res, &Val{T: n, S: s, GoT: t})
	}
	return res
}

func (fr *Frame) callCommon(common *ssa.CallCommon, args []*Val, fv *Val, st *State, pos token.Pos) *Val {
	e := fr.e
	sig := common.Signature()
	if common.IsInvoke() {
		return fr.invoke(common, args, fv, st, pos)
	}
	switch callee := common.Value.(type) {
	case *ssa.Builtin:
		// call-site clauses may be attached to a builtin ("at builtin.delete assert ...")
		fr.atAsserts("builtin."+callee.Name(), args, nil, st, pos)
		return fr.builtin(callee, common, args, st, pos)
	case *ssa.Function:
		return fr.staticCall(callee, args, nil, st, pos)
	case *ssa.MakeClosure:
		clo := fv.Clo
		if clo != nil {
			return fr.staticCall(clo.Fn, args, clo.Bind, st, pos)
		}
	}
	if fv != nil && fv.Clo != nil {
		return fr.staticCall(fv.Clo.Fn, args, fv.Clo.Bind, st, pos)
	}
	// dynamic call of an unknown function value (callback parameter): result havocked, no heap effect
	e.abstr["call of function value "+fr.srcText(pos)+" in "+fr.key+": result havocked, callee assumed not to touch engine state"] = true
	return fr.tupleOrSingle(fr.havocResults(sig, st, "dyn"), sig)
}

func (fr *Frame) isRecursive(fn *ssa.Function) bool {
	for f := fr; f != nil; f = f.parent {
		if f.fn == fn {
			return true
		}
	}
	return false
}

func (e *Enc) isRepoFn(fn *ssa.Function) bool {
	p := fn.Pkg
	if p == nil && fn.Parent() != nil {
		p = fn.Parent().Pkg
	}
	if p == nil {
		if fn.Object() != nil && fn.Object().Pkg() != nil {
			return strings.HasPrefix(fn.Object().Pkg().Path(), e.g.modPath)
		}
		return false
	}
	return strings.HasPrefix(p.Pkg.Path(), e.g.modPath)
}

func (fr *Frame) staticCall(fn *ssa.Function, args []*Val, bind []*Val, st *State, pos token.Pos) *Val {
	pcBefore := st.pc
	res := fr.staticCall1(fn, args, bind, st, pos)
	{
		root := fr.root()
		k := fnKey(fr.e.g, fn)
		root.callResults[k] = append(root.callResults[k], callRes{pcBefore, res})
	}
	return res
}

func (fr *Frame) staticCall1(fn *ssa.Function, args []*Val, bind []*Val, st *State, pos token.Pos) *Val {
	e := fr.e
	key := fnKey(e.g, fn)
	sig := fn.Signature
	spec := e.g.specs.Funcs[key]
	fr.atAsserts(key, args, sig, st, pos)
	if r, ok := fr.special(key, fn, args, st, pos); ok {
		return r
	}
	if spec != nil && !spec.Inline {
		fr.closureBind = nil
		if len(fn.FreeVars) > 0 && len(bind) == len(fn.FreeVars) {
			fr.closureBind = map[string]*Val{}
			for i, fv := range fn.FreeVars {
				fr.closureBind[fv.Name()] = fr.loadQuiet(st, bind[i])
			}
		}
		res := fr.applyContract(spec, fn, sig, args, nil, st, pos)
		fr.closureBind = nil
		return fr.tupleOrSingle(res, sig)
	}
	if fn.Blocks != nil && ((spec != nil && spec.Inline) || e.isRepoFn(fn)) && fr.depth < maxInlineDepth && !fr.isRecursive(fn) {
		e.inlined[key] = true
		sub := e.newFrame(fn, fr)
		for i, fvar := range fn.FreeVars {
			if i < len(bind) {
				sub.vals[fvar] = bind[i]
			}
		}
		res, out := sub.run(args, st)
		if out == nil {
			fr.stopped = true
			return nil
		}
		st.heap = out.heap
		st.pc = out.pc
		return fr.tupleOrSingle(res, sig)
	}
	e.trusted["uncontracted external "+key+" (result unconstrained, assumed to have no effect on modelled state)"] = true
	return fr.tupleOrSingle(fr.havocResults(sig, st, key), sig)
}

// paramNames: receiver first
func paramNames(fn *ssa.Function, sig *types.Signature, spec *FuncSpec) []string {
	if spec != nil && len(spec.Names) > 0 {
		return spec.Names
	}
	var names []string
	if fn != nil && len(fn.Params) > 0 {
		for _, p := range fn.Params {
			names = append(names, p.Name())
		}
		return names
	}
	if sig.Recv() != nil {
		n := sig.Recv().Name()
		if n == "" || n == "_" {
			n = "self"
		}
		names = append(names, n)
	}
	for i := 0; i < sig.Params().Len(); i++ {
		n := sig.Params().At(i).Name()
		if n == "" || n == "_" {
			n = fmt.Sprintf("arg%d", i)
		}
		names = append(names, n)
	}
	return names
}

// specFrame builds an evaluation frame for a contract: names bound to the given values.
func (fr *Frame) specFrame(spec *FuncSpec, fn *ssa.Function, sig *types.Signature, args []*Val, pkg *types.Package) *Frame {
	cf := &Frame{e: fr.e, env: map[string]*Val{}, specVars: map[string]*Val{}, key: spec.Key, spec: spec, specPkg: pkg}
	if fn != nil && fn.Pkg != nil {
		cf.fn = nil
		cf.specPkg = fn.Pkg.Pkg
	}
	names := paramNames(fn, sig, spec)
	var ptypes []types.Type
	if sig.Recv() != nil {
		ptypes = append(ptypes, sig.Recv().Type())
	}
	for i := 0; i < sig.Params().Len(); i++ {
		ptypes = append(ptypes, sig.Params().At(i).Type())
	}
	for i, n := range names {
		if i < len(args) {
			v := *args[i]
			if v.GoT == nil && i < len(ptypes) {
				v.GoT = ptypes[i]
			}
			cf.env[n] = &v
		}
	}
	return cf
}

func bindResults(cf *Frame, res []*Val) {
	for i, r := range res {
		cf.specVars[fmt.Sprintf("result%d", i)] = r
	}
	if len(res) >= 1 {
		cf.specVars["result"] = res[0]
	}
}

func (fr *Frame) applyContract(spec *FuncSpec, fn *ssa.Function, sig *types.Signature, args []*Val, pkg *types.Package, st *State, pos token.Pos) []*Val {
	e := fr.e
	e.usedSpecs[spec.Key] = true
	if spec.Trusted || fn == nil || fn.Blocks == nil || !e.isRepoFn(fn) {
		e.trusted["contract of "+spec.Key] = true
	}
	if spec.IOEffect && e.dry == 0 {
		if e.ioCount == "" {
			e.ioCount = "0"
		}
		e.ioCount = e.define("iocalls", "Int", sIte(st.pc, "(+ "+e.ioCount+" 1)", e.ioCount))
	}
	cf := fr.specFrame(spec, fn, sig, args, pkg)
	cf.parent = nil
	cf.callerFrame = fr
	for k, v := range fr.closureBind {
		cf.env[k] = v
	}
	pre := st.clone()
	// a callee that treats a parameter as not yet shared may only be handed an unshared object
	for _, u := range spec.Unshared {
		if v, ok := cf.env[u]; ok && !fr.isUnshared(v.T) {
			e.oblige("call.pre", spec.Key+":unshared "+u, st.pc, "false", nil, pos, "callee assumes the object is not yet visible to other goroutines")
		}
	}
	cf.lets = spec.Lets
	// requires
	for _, c := range spec.Requires {
		t, err := cf.evalClause(c, pre, pre, nil, nil)
		if err != nil {
			fr.bindErr(c, err)
			continue
		}
		e.oblige("call.pre", spec.Key+":"+c.Label, st.pc, t, nil, pos, fr.srcText(pos))
	}
	// a conforming method is also bound by the requires of the interface contract it conforms to (its ensures are
	// offered to static callers below)
	if spec.Conforms != "" && fn != nil && len(args) > 0 {
		if is := e.g.specs.Funcs[spec.Conforms]; is != nil {
			recvT := fn.Params[0].Type()
			self := &Val{T: fmt.Sprintf("(mk-iface %d %s)", e.tagOf(recvT), args[0].T), S: "Iface"}
			ik := spec.Conforms[1:strings.Index(spec.Conforms, ")")]
			if it := e.typeByKey(ik); it != nil {
				self.GoT = it
			}
			cf.env["self"] = self
			for i, n := range is.Names {
				if i == 0 || i >= len(args) {
					continue
				}
				cf.env[n] = args[i]
			}
			if al := e.g.specs.Abstractions[typeKey(e.g, recvT)]; al != nil {
				rv := *args[0]
				rv.GoT = recvT
				cf.ghostAlias, cf.aliasSelf, cf.aliasRecv = al, self, &rv
			}
			for _, c := range is.Requires {
				cf.unaliased = ""
				t, err := cf.evalClause(c, pre, pre, nil, nil)
				if err != nil || cf.unaliased != "" {
					continue
				}
				e.oblige("call.pre", spec.Key+":"+spec.Conforms+":"+c.Label, st.pc, t, nil, pos, fr.srcText(pos))
			}
			cf.ghostAlias, cf.aliasSelf, cf.aliasRecv = nil, nil, nil
		}
	}
	// non-nil receiver / pointer params are part of every contract unless nilable
	// havoc
	nx0 := e.next(st)
	nx := e.havocComp(st, "$next", "Int")
	e.assume(st.pc, "(>= "+nx+" "+nx0+")")
	for _, m := range spec.Modifies {
		ts, err := cf.evalTargets(m, pre)
		if err != nil {
			fr.bindErr(&Clause{Kind: "modifies", Label: m, File: spec.File, Line: spec.Line}, err)
			continue
		}
		for _, t := range ts {
			if e.ownerOn() && t.Kind == "at" && t.Comp == "A_byte" {
				fr.ownerWriteCheck(pre, t.Base, pos, "callee "+spec.Key+" writes "+m)
			}
			e.havocTarget(st, t)
		}
	}
	if e.ownerOn() {
		e.ownerAfterCall(st, st.pc, nx0)
	}
	if spec.IOEffect {
		var fl []string
		for g := range e.g.specs.Frameless {
			fl = append(fl, g)
		}
		sort.Strings(fl)
		for _, g := range fl {
			e.havocComp(st, "GG_"+g, specSort(e.g.specs.GhostGl[g]))
		}
	}
	res := fr.havocResults(sig, st, spec.Key)
	bindResults(cf, res)
	for _, c := range spec.Ensures {
		if c.Internal {
			continue
		}
		t, err := cf.evalClause(c, st, pre, nil, nil)
		if err != nil {
			fr.bindErr(c, err)
			continue
		}
		e.assume(st.pc, t)
	}
	for _, c := range spec.Assumes {
		t, err := cf.evalClause(c, st, pre, nil, nil)
		if err != nil {
			fr.bindErr(c, err)
			continue
		}
		e.trusted["assumed clause "+spec.Key+"["+c.Label+"]"] = true
		e.assume(st.pc, t)
	}
	// a method that is verified against an interface contract ("conforms") offers the ensures of that contract to
	// its static callers as well, read off the implementation's own state through the abstraction of the receiver
	if spec.Conforms != "" && fn != nil && len(args) > 0 {
		if is := e.g.specs.Funcs[spec.Conforms]; is != nil {
			recvT := fn.Params[0].Type()
			self := &Val{T: fmt.Sprintf("(mk-iface %d %s)", e.tagOf(recvT), args[0].T), S: "Iface"}
			ik := spec.Conforms[1:strings.Index(spec.Conforms, ")")]
			if it := e.typeByKey(ik); it != nil {
				self.GoT = it
			}
			cf.env["self"] = self
			for i, n := range is.Names {
				if i == 0 || i >= len(args) {
					continue
				}
				cf.env[n] = args[i]
			}
			if al := e.g.specs.Abstractions[typeKey(e.g, recvT)]; al != nil {
				rv := *args[0]
				rv.GoT = recvT
				cf.ghostAlias, cf.aliasSelf, cf.aliasRecv = al, self, &rv
			}
			for _, c := range is.Ensures {
				cf.unaliased = ""
				t, err := cf.evalClause(c, st, pre, nil, nil)
				if err != nil || cf.unaliased != "" {
					continue
				}
				e.assume(st.pc, t)
			}
			cf.ghostAlias, cf.aliasSelf, cf.aliasRecv = nil, nil, nil
		}
	}
	fr.assumeHeapInvs(st)
	return res
}

// repComps: heap components that represent an abstract ghost field ("rep" directive) -> owning package name
func (fr *Frame) repComps() map[string]string {
	e := fr.e
	if e.repCompsMap != nil {
		return e.repCompsMap
	}
	e.repCompsMap = map[string]string{}
	hf := &Frame{e: e, env: map[string]*Val{}, specVars: map[string]*Val{}, key: "rep"}
	st := &State{pc: "true", heap: map[string]string{}}
	for k, reps := range e.g.specs.Rep {
		owner := k
		if j := strings.Index(k, "."); j > 0 {
			owner = k[:j]
		}
		for _, r := range reps {
			ts, err := hf.evalTargets1(r, st)
			if err != nil {
				continue
			}
			for _, t := range ts {
				e.repCompsMap[t.Comp] = owner
			}
		}
	}
	return e.repCompsMap
}

func (fr *Frame) pkgName() string {
	root := fr.root()
	if root.fn != nil {
		if p := root.fn.Pkg; p != nil {
			return p.Pkg.Name()
		} else if root.fn.Parent() != nil && root.fn.Parent().Pkg != nil {
			return root.fn.Parent().Pkg.Pkg.Name()
		}
	}
	return ""
}

// assumeHeapInvs: trusted invariants of ghost state (declared with "heapinv") hold in state st
func (fr *Frame) assumeHeapInvs(st *State) {
	e := fr.e
	if len(e.g.specs.HeapInvs) == 0 {
		return
	}
	hf := &Frame{e: e, env: map[string]*Val{}, specVars: map[string]*Val{}, key: "heapinv"}
	root := fr.root()
	pkgName := ""
	if root.fn != nil {
		if p := root.fn.Pkg; p != nil {
			pkgName = p.Pkg.Name()
		} else if root.fn.Parent() != nil && root.fn.Parent().Pkg != nil {
			pkgName = root.fn.Parent().Pkg.Pkg.Name()
		}
	}
	for _, c := range e.g.specs.HeapInvs {
		if len(c.Scope) > 0 && !contains(c.Scope, pkgName) {
			continue
		}
		t, err := hf.evalClause(c, st, st, nil, nil)
		if err != nil {
			e.g.reportBindErr("heapinv", c, err)
			continue
		}
		e.trusted["heap invariant ["+c.Label+"]"] = true
		e.assume(st.pc, t)
	}
}

// ---------- modifies targets ----------

type modTarget struct {
	Comp string
	Sort Sort
	Kind string // whole | at | loc | elems
	Base string
	Loc  *Loc
	In   string // for kind "elems": name of a unary predicate (define-fun) telling whether a reference is a target
}

func (cf *Frame) evalTargets(src string, pre *State) ([]modTarget, error) {
	ts, err := cf.evalTargets1(src, pre)
	if err != nil {
		return ts, err
	}
	// a target on an abstract ghost field covers the components that represent it
	e := cf.e
	for _, t := range ts {
		for k, reps := range e.g.specs.Rep {
			j := strings.LastIndex(k, ".")
			if t.Comp != "G_"+san(k[:j])+"_"+k[j+1:] {
				continue
			}
			for _, r := range reps {
				rs, err := cf.evalTargets1(r, pre)
				if err != nil {
					return ts, err
				}
				ts = append(ts, rs...)
			}
		}
	}
	return ts, nil
}

func (cf *Frame) evalTargets1(src string, pre *State) ([]modTarget, error) {
	e := cf.e
	src = strings.TrimSpace(src)
	if strings.HasPrefix(src, "mapsof:") {
		// every map of the type of field <TypeKey>.<field> (coarse)
		k := strings.LastIndex(src, ".")
		tk, f := src[7:k], src[k+1:]
		for _, t := range e.g.allTypes {
			if typeKey(e.g, t) != tk {
				continue
			}
			if u, ok := t.Underlying().(*types.Struct); ok {
				for i := 0; i < u.NumFields(); i++ {
					if mt, ok := u.Field(i).Type().Underlying().(*types.Map); ok && u.Field(i).Name() == f {
						dom, val, cnt, ks, vs := e.mapComps(mt)
						return []modTarget{
							{Comp: dom, Sort: "(Array Int (Array " + ks + " Bool))", Kind: "whole"},
							{Comp: val, Sort: "(Array Int (Array " + ks + " " + vs + "))", Kind: "whole"},
							{Comp: cnt, Sort: "(Array Int Int)", Kind: "whole"}}, nil
					}
				}
			}
		}
		return nil, fmt.Errorf("unbound:%s", src)
	}
	if strings.HasPrefix(src, "type:") {
		// whole component: type:<TypeKey>.<field>
		k := strings.LastIndex(src, ".")
		tk, f := src[5:k], src[k+1:]
		if g, ok := e.g.specs.Ghosts[tk+"."+f]; ok {
			return []modTarget{{Comp: "G_" + san(tk) + "_" + f, Sort: "(Array Int " + specSort(g.Sort) + ")", Kind: "whole"}}, nil
		}
		for _, t := range e.g.allTypes {
			if typeKey(e.g, t) == tk {
				if u, ok := t.Underlying().(*types.Struct); ok {
					for i := 0; i < u.NumFields(); i++ {
						if u.Field(i).Name() == f {
							c, cs, _ := e.fieldComp(t, i)
							return []modTarget{{Comp: c, Sort: "(Array Int " + cs + ")", Kind: "whole"}}, nil
						}
					}
				}
			}
		}
		return nil, fmt.Errorf("unbound:%s", src)
	}
	if strings.HasPrefix(src, "arrays:") {
		// every array with this element type (coarse): arrays:int
		k := src[7:]
		es := Sort("Int")
		if t := e.typeByKey(k); t != nil {
			es = e.sortOf(t)
		}
		return []modTarget{{Comp: "A_" + san(k), Sort: arrSort(es), Kind: "whole"}}, nil
	}
	if src == "owner" {
		return []modTarget{{Comp: "Owner", Sort: "(Array Int Int)", Kind: "whole"}}, nil
	}
	if srt, ok := e.g.specs.GhostGl[src]; ok {
		return []modTarget{{Comp: "GG_" + src, Sort: specSort(srt), Kind: "whole"}}, nil
	}
	x, err := parseSpec(src)
	if err != nil {
		return nil, err
	}
	c := &evalCtx{fr: cf, cur: pre, old: pre, vars: map[string]*Val{}, pkg: cf.specPkg, noAlias: true}
	for k, v := range cf.specVars {
		c.vars[k] = v
	}
	if x.Op == "sel" && x.Args[0].Op == "all" {
		// s[*].f : field f of every object the slice s (of pointers) refers to
		v, err := c.ev(x.Args[0].Args[0])
		if err != nil {
			return nil, err
		}
		sl, ok := v.GoT.Underlying().(*types.Slice)
		if !ok {
			return nil, fmt.Errorf("modifies %s: not a slice", src)
		}
		pt, ok := sl.Elem().Underlying().(*types.Pointer)
		if !ok {
			return nil, fmt.Errorf("modifies %s: elements are not pointers", src)
		}
		st, ok := pt.Elem().Underlying().(*types.Struct)
		if !ok {
			return nil, fmt.Errorf("modifies %s: elements do not point to structs", src)
		}
		ecomp, es := e.elemComp(sl.Elem())
		elems := sSel(e.get(pre, ecomp, arrSort(es)), "(s-arr "+v.T+")")
		e.ctr++
		in := fmt.Sprintf("inT!%d", e.ctr)
		e.declRaw(fmt.Sprintf("(define-fun %s ((r Int)) Bool (exists ((i Int)) (and (<= 0 i) (< i (s-len %s)) (= r (select %s (ix (s-off %s) i))))))", in, v.T, elems, v.T))
		for i := 0; i < st.NumFields(); i++ {
			if st.Field(i).Name() == x.Name {
				cc, cs, _ := e.fieldComp(pt.Elem(), i)
				return []modTarget{{Comp: cc, Sort: "(Array Int " + cs + ")", Kind: "elems", In: in}}, nil
			}
		}
		return nil, fmt.Errorf("unbound:%s", x.Name)
	}
	if x.Op == "all" {
		v, err := c.ev(x.Args[0])
		if err != nil {
			return nil, err
		}
		if v.GoT == nil {
			return nil, fmt.Errorf("modifies %s: untyped", src)
		}
		switch t := v.GoT.Underlying().(type) {
		case *types.Slice:
			comp, es := e.elemComp(t.Elem())
			return []modTarget{{Comp: comp, Sort: arrSort(es), Kind: "at", Base: "(s-arr " + v.T + ")"}}, nil
		case *types.Map:
			dom, val, cnt, ks, vs := e.mapComps(t)
			return []modTarget{
				{Comp: dom, Sort: "(Array Int (Array " + ks + " Bool))", Kind: "at", Base: v.T},
				{Comp: val, Sort: "(Array Int (Array " + ks + " " + vs + "))", Kind: "at", Base: v.T},
				{Comp: cnt, Sort: "(Array Int Int)", Kind: "at", Base: v.T}}, nil
		case *types.Pointer:
			// all fields of the object
			if u, ok := t.Elem().Underlying().(*types.Struct); ok {
				var out []modTarget
				for i := 0; i < u.NumFields(); i++ {
					cc, cs, _ := e.fieldComp(t.Elem(), i)
					out = append(out, modTarget{Comp: cc, Sort: "(Array Int " + cs + ")", Kind: "at", Base: v.T})
				}
				return out, nil
			}
		}
		return nil, fmt.Errorf("modifies %s: not a slice, map or struct pointer", src)
	}
	if x.Op == "call" && x.Name == "deref" {
		v, err := c.ev(x.Args[0])
		if err != nil {
			return nil, err
		}
		loc := cf.ptrLoc(v)
		if loc == nil || loc.Kind == locStruct {
			return nil, fmt.Errorf("modifies %s: no location", src)
		}
		return []modTarget{{Kind: "loc", Loc: loc, Comp: loc.Comp}}, nil
	}
	v, err := c.ev(x)
	if err != nil {
		return nil, err
	}
	if v.Loc == nil {
		return nil, fmt.Errorf("modifies %s: not a location", src)
	}
	return []modTarget{{Kind: "loc", Loc: v.Loc, Comp: v.Loc.Comp}}, nil
}

func (e *Enc) havocTarget(st *State, t modTarget) {
	switch t.Kind {
	case "whole":
		e.havocComp(st, t.Comp, t.Sort)
	case "at":
		inner := t.Sort[len("(Array Int ") : len(t.Sort)-1]
		f := e.fresh("hv", inner)
		e.set(st, t.Comp, t.Sort, sStore(e.get(st, t.Comp, t.Sort), t.Base, f))
	case "elems":
		n := e.fresh(t.Comp, t.Sort)
		old := e.get(st, t.Comp, t.Sort)
		e.ctr++
		q := fmt.Sprintf("er!%d", e.ctr)
		e.assume(st.pc, fmt.Sprintf("(forall ((%s Int)) (! (=> (not (%s %s)) (= (select %s %s) (select %s %s))) :pattern ((select %s %s))))", q, t.In, q, n, q, old, q, n, q))
		st.heap[t.Comp] = n
	case "loc":
		l := t.Loc
		s := l.CS
		if l.GoT != nil {
			s = e.sortOf(l.GoT)
		}
		f := e.fresh("hv", s)
		if l.GoT != nil {
			e.assume(st.pc, e.wf(l.GoT, f, e.next(st)))
		}
		e.locWrite(st, l, f)
	}
}

// ---------- interface dispatch ----------

func (fr *Frame) invoke(common *ssa.CallCommon, args []*Val, recv *Val, st *State, pos token.Pos) *Val {
	e := fr.e
	sig := common.Signature()
	it := common.Value.Type()
	ikey := "(" + typeKey(e.g, it) + ")." + common.Method.Name()
	if types.Identical(it.Underlying(), types.Universe.Lookup("error").Type().Underlying()) {
		return fr.tupleOrSingle(fr.havocResults(sig, st, "errmethod"), sig)
	}
	e.oblige("safety", "nil interface call: "+fr.srcText(pos), st.pc, "(not (= (i-tag "+recv.T+") 0))", nil, pos, ikey)
	fr.atAsserts(ikey, append([]*Val{recv}, args...), nil, st, pos)
	if spec := e.g.specs.Funcs[ikey]; spec != nil {
		var pkg *types.Package
		if n, ok := types.Unalias(it).(*types.Named); ok {
			pkg = n.Obj().Pkg()
		}
		// receiver named "self" unless params directive
		all := append([]*Val{recv}, args...)
		msig := common.Method.Type().(*types.Signature)
		names := spec.Names
		if len(names) == 0 {
			names = []string{"self"}
			for i := 0; i < msig.Params().Len(); i++ {
				n := msig.Params().At(i).Name()
				if n == "" {
					n = fmt.Sprintf("arg%d", i)
				}
				names = append(names, n)
			}
			spec.Names = names
		}
		rv := *recv
		rv.GoT = it
		all[0] = &rv
		for i := 0; i < msig.Params().Len(); i++ {
			if all[i+1].GoT == nil {
				v := *all[i+1]
				v.GoT = msig.Params().At(i).Type()
				all[i+1] = &v
			}
		}
		pcBefore := st.pc
		res := fr.applyContract(spec, nil, msig, all, pkg, st, pos)
		rv2 := fr.tupleOrSingle(res, sig)
		{
			root := fr.root()
			root.callResults[ikey] = append(root.callResults[ikey], callRes{pcBefore, rv2})
		}
		return rv2
	}
	// closed-world dispatch over repo implementers
	iface := it.Underlying().(*types.Interface)
	type impl struct {
		t  types.Type
		fn *ssa.Function
	}
	var impls []impl
	for _, t := range e.g.allTypes {
		for _, cand := range []types.Type{t, types.NewPointer(t)} {
			if _, isI := cand.Underlying().(*types.Interface); isI {
				continue
			}
			if types.Implements(cand, iface) {
				ms := e.g.prog.MethodSets.MethodSet(cand)
				sel := ms.Lookup(common.Method.Pkg(), common.Method.Name())
				if sel == nil {
					continue
				}
				f := e.g.prog.MethodValue(sel)
				if f != nil {
					impls = append(impls, impl{cand, f})
				}
				break
			}
		}
	}
	if len(impls) == 0 {
		e.trusted["interface call "+ikey+" without contract or repo implementer: result unconstrained"] = true
		return fr.tupleOrSingle(fr.havocResults(sig, st, ikey), sig)
	}
	var outs []*State
	var ress [][]*Val
	var conds []string
	base := st.clone()
	for _, im := range impls {
		tag := e.tagOf(im.t)
		cond := fmt.Sprintf("(= (i-tag %s) %d)", recv.T, tag)
		conds = append(conds, cond)
		s := base.clone()
		s.pc = e.define("pc_disp_"+fr.prefix, "Bool", sAnd(base.pc, cond))
		var rv *Val
		if isPointerLike(im.t) {
			rv = &Val{T: "(i-val " + recv.T + ")", S: "Int", GoT: im.t}
		} else {
			srt := e.sortOf(im.t)
			rv = &Val{T: sSel(e.get(s, "Bx_"+san(srt), "(Array Int "+srt+")"), "(i-val "+recv.T+")"), S: srt, GoT: im.t}
		}
		r := fr.staticCall(im.fn, append([]*Val{rv}, args...), nil, s, pos)
		if fr.stopped {
			fr.stopped = false
			continue
		}
		var rs []*Val
		if r != nil && r.Tup != nil {
			rs = r.Tup
		} else if r != nil && sig.Results().Len() == 1 {
			rs = []*Val{r}
		}
		outs = append(outs, s)
		ress = append(ress, rs)
	}
	// closed world: the dynamic type is one of the implementers
	e.assume(base.pc, sOr(conds...))
	e.trusted["closed-world dispatch of "+ikey+" over repo implementers"] = true
	if len(outs) == 0 {
		fr.stopped = true
		return nil
	}
	m := e.mergeStates("disp_"+fr.prefix, outs)
	var res []*Val
	for i := 0; i < sig.Results().Len(); i++ {
		t := sig.Results().At(i).Type()
		term := ress[len(ress)-1][i].T
		for k := len(ress) - 2; k >= 0; k-- {
			term = sIte(outs[k].pc, ress[k][i].T, term)
		}
		n := e.define("disp_r", e.sortOf(t), term)
		res = append(res, &Val{T: n, S: e.sortOf(t), GoT: t})
	}
	st.heap = m.heap
	st.pc = m.pc
	return fr.tupleOrSingle(res, sig)
}

// ---------- builtins ----------

func (fr *Frame) builtin(b *ssa.Builtin, common *ssa.CallCommon, args []*Val, st *State, pos token.Pos) *Val {
	e := fr.e
	switch b.Name() {
	case "len":
		a := args[0]
		switch t := common.Args[0].Type().Underlying().(type) {
		case *types.Slice:
			return &Val{T: "(s-len " + a.T + ")", S: "Int"}
		case *types.Map:
			_, _, cnt, _, _ := e.mapComps(t)
			n := e.define("maplen", "Int", sIte("(= "+a.T+" 0)", "0", sSel(e.get(st, cnt, "(Array Int Int)"), a.T)))
			e.assume(st.pc, "(and (<= 0 "+n+") (<= "+n+" 17592186044416))")
			return &Val{T: n, S: "Int"}
		case *types.Basic:
			return &Val{T: "(strlen " + a.T + ")", S: "Int"}
		case *types.Pointer:
			if arr, ok := t.Elem().Underlying().(*types.Array); ok {
				return &Val{T: fmt.Sprint(arr.Len()), S: "Int"}
			}
		}
		n := e.fresh("len", "Int")
		e.assume(st.pc, "(>= "+n+" 0)")
		return &Val{T: n, S: "Int"}
	case "cap":
		if _, ok := common.Args[0].Type().Underlying().(*types.Slice); ok {
			return &Val{T: "(s-cap " + args[0].T + ")", S: "Int"}
		}
		n := e.fresh("cap", "Int")
		e.assume(st.pc, "(>= "+n+" 0)")
		return &Val{T: n, S: "Int"}
	case "min", "max":
		f := "imin"
		if b.Name() == "max" {
			f = "imax"
		}
		t := args[0].T
		for _, a := range args[1:] {
			t = "(" + f + " " + t + " " + a.T + ")"
		}
		return &Val{T: t, S: "Int"}
	case "append":
		return fr.appendBuiltin(common, args, st, pos)
	case "copy":
		return fr.copyBuiltin(common, args, st, pos)
	case "delete":
		m := common.Args[0].Type().Underlying().(*types.Map)
		e.mapDelete(st, m, args[0].T, args[1].T)
		return &Val{T: "0", S: "Int"}
	case "panic":
		if !fr.topSpecPanicsOK() {
			e.oblige("safety", "panic unreachable: "+fr.srcText(pos), st.pc, "false", nil, pos, "")
		}
		fr.stopped = true
		return nil
	case "close", "print", "println", "clear":
		return &Val{T: "0", S: "Int"}
	case "recover":
		return &Val{T: "niliface", S: "Iface"}
	}
	e.abstr["builtin "+b.Name()+" unmodelled in "+fr.key] = true
	return fr.tupleOrSingle(fr.havocResults(common.Signature(), st, b.Name()), common.Signature())
}

func (e *Enc) copyFact(pc, newc, oldc, lo, n, src, srcLo string) {
	if !e.content {
		return
	}
	e.ctr++
	i := fmt.Sprintf("ci%d", e.ctr)
	e.assume(pc, fmt.Sprintf("(forall ((%s Int)) (! (= (select %s %s) (ite (and (<= %s %s) (< %s (+ %s %s))) (select %s (+ %s (- %s %s))) (select %s %s))) :pattern ((select %s %s))))",
		i, newc, i, lo, i, i, lo, n, src, srcLo, i, lo, oldc, i, newc, i))
}

func (fr *Frame) appendBuiltin(common *ssa.CallCommon, args []*Val, st *State, pos token.Pos) *Val {
	e := fr.e
	s, t := args[0], args[1]
	sl := common.Args[0].Type().Underlying().(*types.Slice)
	comp, es := e.elemComp(sl.Elem())
	srt := arrSort(es)
	var n, srcCont, srcLo string
	if _, isStr := common.Args[1].Type().Underlying().(*types.Basic); isStr {
		n = "(strlen " + t.T + ")"
		srcCont = e.fresh("strcont", "(Array Int "+es+")")
		srcLo = "0"
	} else {
		n = "(s-len " + t.T + ")"
		srcCont = sSel(e.get(st, comp, srt), "(s-arr "+t.T+")")
		srcLo = "(s-off " + t.T + ")"
	}
	cur := e.get(st, comp, srt)
	newLen := e.define("applen", "Int", "(+ (s-len "+s.T+") "+n+")")
	fits := e.define("appfits", "Bool", "(<= "+newLen+" (s-cap "+s.T+"))")
	// case A: in place
	oldA := sSel(cur, "(s-arr "+s.T+")")
	newA := e.fresh("appA", "(Array Int "+es+")")
	e.copyFact(st.pc, newA, oldA, "(+ (s-off "+s.T+") (s-len "+s.T+"))", n, srcCont, srcLo)
	// case B: reallocation
	r := e.fresh("apparr", "Int")
	nx := e.next(st)
	e.fact(sEq(r, nx))
	newCap := e.fresh("appcap", "Int")
	e.assume(st.pc, "(and (>= "+newCap+" "+newLen+") (<= "+newCap+" 17592186044416))")
	newB := e.fresh("appB", "(Array Int "+es+")")
	if e.content {
		e.ctr++
		i := fmt.Sprintf("ai%d", e.ctr)
		e.assume(st.pc, fmt.Sprintf("(forall ((%s Int)) (! (= (select %s %s) (ite (< %s (s-len %s)) (select %s (ix (s-off %s) %s)) (select %s (ix %s (- %s (s-len %s)))))) :pattern ((select %s %s))))",
			i, newB, i, i, s.T, oldA, s.T, i, srcCont, srcLo, i, s.T, newB, i))
	}
	if e.ownerOn() && comp == "A_byte" {
		ow0 := e.get(st, "Owner", "(Array Int Int)")
		e.oblige("owner", "no write into a caller-owned array: "+fr.srcText(pos), st.pc,
			sOr(sNot(fits), "(= "+n+" 0)", "(= "+sSel(ow0, "(s-arr "+s.T+")")+" 1)"), nil, pos, "append in place")
	}
	if comp == "A_byte" {
		// the appended segment is byte-for-byte the source: same abstract identity (strOf is a function of
		// the bytes of a segment)
		e.needStrOf()
		srcID := "(strOf " + srcCont + " " + srcLo + " " + n + ")"
		if _, isStr := common.Args[1].Type().Underlying().(*types.Basic); isStr {
			srcID = t.T
		}
		e.assume(st.pc, "(= (strOf "+newA+" (+ (s-off "+s.T+") (s-len "+s.T+")) "+n+") "+srcID+")")
		e.assume(st.pc, "(= (strOf "+newB+" (s-len "+s.T+") "+n+") "+srcID+")")
	}
	// when nothing is appended to a nil slice the result stays nil: the in-place case covers it (0 <= cap)
	e.set(st, comp, srt, sIte(fits, sStore(cur, "(s-arr "+s.T+")", newA), sStore(cur, r, newB)))
	e.set(st, "$next", "Int", sIte(fits, nx, "(+ "+nx+" 1)"))
	if e.ownerOn() {
		ow := e.get(st, "Owner", "(Array Int Int)")
		e.set(st, "Owner", "(Array Int Int)", sIte(fits, ow, sStore(ow, r, "1")))
	}
	res := e.define("appres", "Slice", sIte(fits,
		"(mk-slice (s-arr "+s.T+") (s-off "+s.T+") "+newLen+" (s-cap "+s.T+"))",
		"(mk-slice "+r+" 0 "+newLen+" "+newCap+")"))
	return &Val{T: res, S: "Slice", GoT: common.Args[0].Type()}
}

func (fr *Frame) copyBuiltin(common *ssa.CallCommon, args []*Val, st *State, pos token.Pos) *Val {
	e := fr.e
	d, s := args[0], args[1]
	sl := common.Args[0].Type().Underlying().(*types.Slice)
	comp, es := e.elemComp(sl.Elem())
	srt := arrSort(es)
	var n, srcCont, srcLo string
	if _, isStr := common.Args[1].Type().Underlying().(*types.Basic); isStr {
		n = e.define("copyn", "Int", "(imin (s-len "+d.T+") (strlen "+s.T+"))")
		srcCont = e.fresh("strcont", "(Array Int "+es+")")
		srcLo = "0"
	} else {
		n = e.define("copyn", "Int", "(imin (s-len "+d.T+") (s-len "+s.T+"))")
		srcCont = sSel(e.get(st, comp, srt), "(s-arr "+s.T+")")
		srcLo = "(s-off " + s.T + ")"
	}
	cur := e.get(st, comp, srt)
	oldD := sSel(cur, "(s-arr "+d.T+")")
	newD := e.fresh("copyD", "(Array Int "+es+")")
	e.copyFact(st.pc, newD, oldD, "(s-off "+d.T+")", n, srcCont, srcLo)
	if e.ownerOn() {
		fr.ownerWriteCheck(st, "(s-arr "+d.T+")", pos, "copy into")
	}
	e.set(st, comp, srt, sIte("(> "+n+" 0)", sStore(cur, "(s-arr "+d.T+")", newD), cur))
	return &Val{T: n, S: "Int"}
}

// ---------- special-cased library functions ----------

func (fr *Frame) special(key string, fn *ssa.Function, args []*Val, st *State, pos token.Pos) (*Val, bool) {
	e := fr.e
	switch key {
	case "(*sync.Pool).Get":
		if p := fr.poolOf(args[0]); p != nil {
			return fr.poolGet(p, args[0], st, pos), true
		}
	case "(*sync.Pool).Put":
		if p := fr.poolOf(args[0]); p != nil {
			fr.poolPut(p, args[0], args[1], st, pos)
			return &Val{T: "0", S: "Int"}, true
		}
	case "atomic.AddInt64":
		// *addr += delta, returns new value; the access itself is atomic (no guard obligation)
		loc := fr.ptrLoc(args[0])
		if loc != nil && loc.Kind != locStruct {
			old := e.locRead(st, loc)
			nv := e.define("atomicadd", "Int", wrapInt("(+ "+old+" "+args[1].T+")", types.Typ[types.Int64]))
			fr.atomicAccess(st, loc, pos)
			e.locWrite(st, loc, nv)
			return &Val{T: nv, S: "Int"}, true
		}
	}
	return nil, false
}

func (fr *Frame) atomicAccess(st *State, loc *Loc, pos token.Pos) {
	// mixed atomic / plain access to a guarded field is reported by the guard obligations of the
	// plain accesses; an atomic access to a guarded_by field is itself a violation of the declaration
	if loc.Kind == locField && loc.StructKey != "" {
		for _, g := range fr.e.g.specs.Guards {
			if g.Type == loc.StructKey && contains(g.Fields, loc.Field) && !fr.isUnshared(loc.Base) {
				lockT := fr.lockTerm(st, loc, g)
				if lockT == "" {
					continue
				}
				hw := sSel(fr.e.get(st, "G_sync_RWMutex_heldW", "(Array Int Bool)"), lockT)
				fr.e.oblige("guard", fmt.Sprintf("%s.%s atomic write under %s", g.Type, loc.Field, g.Lock), st.pc, hw, nil, pos, "field is declared guarded_by; atomic access outside the lock mixes disciplines")
			}
		}
	}
}

// ---------- top-level verification of one function ----------

type FuncResult struct {
	Key   string
	Enc   *Enc
	Obls  []*Obl
	Error string
}

func verifyFunction(g *G, fn *ssa.Function, spec *FuncSpec) *FuncResult {
	e := newEnc(g, fn)
	e.content = spec != nil && containsStr(spec.Abstracts, "!content") == false && spec != nil && spec.Content
	e.owner = spec != nil && spec.Ownership
	fr := e.newFrame(fn, nil)
	fr.isTop = true
	st := &State{pc: "true", heap: map[string]string{}}
	e.comp("$next", "Int")
	e.declRaw("(assert (forall ((a Int) (i Int)) (! (< (ep a i) 0) :pattern ((ep a i)))))")
	e.emitAxioms()
	var args []*Val
	nx := e.next(st)
	for _, p := range fn.Params {
		s := e.sortOf(p.Type())
		n := "in_" + san(p.Name())
		if e.declared[n] {
			n = e.fresh(n, s)
		} else {
			e.declare(n, s)
		}
		e.fact(e.wf(p.Type(), n, nx))
		e.hints[p.Name()] = n
		if _, isPtr := p.Type().Underlying().(*types.Pointer); isPtr && (spec == nil || !spec.Nilable[p.Name()]) {
			e.fact("(not (= " + n + " 0))")
		}
		args = append(args, &Val{T: n, S: s, GoT: p.Type()})
	}
	// free variables of closures verified on their own: unconstrained pointers
	for _, fv := range fn.FreeVars {
		s := e.sortOf(fv.Type())
		n := e.fresh("fv_"+fv.Name(), s)
		e.fact(e.wf(fv.Type(), n, nx))
		e.fact("(not (= " + n + " 0))")
		fr.vals[fv] = &Val{T: n, S: s, GoT: fv.Type()}
	}
	// bind env early for requires evaluation
	for i, p := range fn.Params {
		fr.env[p.Name()] = args[i]
	}
	fr.entry = st.clone()
	if spec != nil {
		fr.lets = spec.Lets
		if spec.Conforms != "" {
			fr.bindConforms(spec, args, st)
		}
		for _, c := range spec.Requires {
			t, err := fr.evalClause(c, st, st, nil, nil)
			if err != nil {
				fr.bindErr(c, err)
				continue
			}
			e.fact(t)
		}
		for _, c := range fr.extraRequires {
			e.fact(c)
		}
		fr.assumeHeapInvs(st)
		if e.ownerOn() {
			fr.ownerEntry(st, args)
		}
	}
	// vacuity: the preconditions are satisfiable
	vo := e.oblige("vacuity", "requires satisfiable", "true", "true", nil, fn.Pos(), "")
	if vo != nil {
		vo.Expect = "sat"
	}
	res, out := fr.run(args, st)
	if out == nil {
		// no reachable return: nothing to check at exit
		return &FuncResult{Key: fr.key, Enc: e, Obls: e.obls}
	}
	fr.curBlock = nil
	fr.atExit = true
	fr.specVars = map[string]*Val{}
	bindResults(fr, res)
	ro := e.oblige("vacuity", "exit reachable", "true", out.pc, nil, fn.Pos(), "")
	if ro != nil {
		ro.Expect = "sat"
	}
	if spec != nil && spec.PerReturn {
		// one obligation per ensures clause and return site, each in the state of that return
		texts := map[string]int{}
		for _, r := range fr.rets {
			txt := "end of function"
			if r.pos.IsValid() {
				txt = fr.lineText(r.pos)
			}
			texts[txt]++
			site := txt
			if texts[txt] > 1 {
				site = fmt.Sprintf("%s#%d", txt, texts[txt])
			}
			fr.specVars = map[string]*Val{}
			bindResults(fr, r.vals)
			for _, c := range append(append([]*Clause{}, fr.extraEnsures...), spec.Ensures...) {
				t, err := fr.evalClause(c, r.st, fr.entry, nil, nil)
				if err != nil {
					fr.bindErr(c, err)
					continue
				}
				e.oblige("post", c.Label+"@"+site, r.st.pc, t, c.Props, r.pos, "")
			}
		}
		fr.specVars = map[string]*Val{}
		bindResults(fr, res)
		// callers and later obligations may use the contract at the merged exit
		for _, c := range append(append([]*Clause{}, fr.extraEnsures...), spec.Ensures...) {
			if t, err := fr.evalClause(c, out, fr.entry, nil, nil); err == nil {
				e.assume(out.pc, t)
			}
		}
	} else if spec != nil {
		for _, c := range append(append([]*Clause{}, fr.extraEnsures...), spec.Ensures...) {
			fr.unaliased = ""
			t, err := fr.evalClause(c, out, fr.entry, nil, nil)
			if err != nil {
				fr.bindErr(c, err)
				continue
			}
			if fr.unaliased != "" && strings.HasPrefix(c.Label, "conform:") {
				// the clause speaks about interface ghost state this implementation has no counterpart of
				// (e.g. a call counter): it cannot be decided on the implementation and stays an assumption
				e.abstr[fmt.Sprintf("conformance clause [%s] of %s not checked: %s has no abstraction for this implementation", c.Label, fr.key, fr.unaliased)] = true
				continue
			}
			o := e.oblige("post", c.Label, out.pc, t, c.Props, fn.Pos(), "")
			if o != nil {
				o.Hints = fr.retHints()
			}
		}
	}
	if spec != nil {
		fr.frameCheck(spec, out)
		for _, a := range spec.AtAsserts {
			if fr.atHits[a] == 0 && !a.Assume {
				// the call this clause is attached to no longer exists in the function: the clause fails
				e.oblige("at", a.Callee+":"+a.Clause.Label, out.pc, "false", a.Clause.Props, fn.Pos(), "no call of "+a.Callee+" remains in "+fr.key)
			}
		}
		if e.ownerOn() {
			fr.ownerExit(out, res)
		}
	}
	return &FuncResult{Key: fr.key, Enc: e, Obls: e.obls}
}

func containsStr(xs []string, x string) bool { return contains(xs, x) }

func (fr *Frame) retHints() map[string]string {
	h := map[string]string{}
	for i, r := range fr.rets {
		h[fmt.Sprintf("return#%d reached", i+1)] = r.st.pc
	}
	return h
}

func (fr *Frame) frameCheck(spec *FuncSpec, out *State) {
	e := fr.e
	fr.targets = nil
	allowed := map[string][]modTarget{}
	mods := append([]string{}, spec.Modifies...)
	mods = append(mods, fr.extraModifies...)
	for _, m := range mods {
		ts, err := fr.evalTargets(m, fr.entry)
		if err != nil {
			fr.bindErr(&Clause{Kind: "modifies", Label: m, File: spec.File, Line: spec.Line}, err)
			continue
		}
		for _, t := range ts {
			allowed[t.Comp] = append(allowed[t.Comp], t)
		}
	}
	var names []string
	for k := range out.heap {
		names = append(names, k)
	}
	sort.Strings(names)
	nx0 := "$next!0"
	nx1 := e.next(out)
	for _, k := range names {
		if k == "$next" || strings.HasPrefix(k, "Seen") || strings.HasPrefix(k, "C_") || strings.HasPrefix(k, "Bx_") {
			continue
		}
		if owner, ok := fr.repComps()[k]; ok && owner != fr.pkgName() {
			// representation of an abstract ghost field of another package: covered by that field's own frame
			continue
		}
		if strings.HasPrefix(k, "GG_") && e.g.specs.Frameless[k[3:]] {
			// the abstract file system may only change inside functions declared io_effect
			if !spec.IOEffect {
				fin := e.get(out, k, e.comps[k])
				ent := e.get(fr.entry, k, e.comps[k])
				if fin != ent {
					e.oblige("frame", k, out.pc, sEq(fin, ent), nil, fr.fn.Pos(), "function is not declared io_effect but changes the file system")
				}
			}
			continue
		}
		srt := e.comps[k]
		fin := e.get(out, k, srt)
		ent := e.get(fr.entry, k, srt)
		if fin == ent {
			continue
		}
		if !strings.HasPrefix(srt, "(Array Int ") {
			whole := false
			for _, t := range allowed[k] {
				if t.Kind == "whole" || (t.Kind == "loc" && t.Loc.Kind == locGlobal) {
					whole = true
				}
			}
			if !whole {
				e.oblige("frame", k, out.pc, sEq(fin, ent), nil, fr.fn.Pos(), "component not in modifies")
			}
			continue
		}
		cond, ok := fr.frameCond(k, "r!frame")
		if !ok {
			continue
		}
		e.declare("r!frame", "Int")
		_, _ = nx0, nx1
		e.oblige("frame", k, out.pc, sImp(cond, sEq(sSel(fin, "r!frame"), sSel(ent, "r!frame"))), nil, fr.fn.Pos(), "only objects named in modifies (or allocated by the call) may change")
	}
}

// bindConforms: a method that implements a contracted interface method is verified against that
// contract: the interface contract's requires are assumed, its ensures become obligations, with
// "self" bound to the interface value wrapping the receiver.
func (fr *Frame) bindConforms(spec *FuncSpec, args []*Val, st *State) {
	e := fr.e
	is := e.g.specs.Funcs[spec.Conforms]
	if is == nil {
		fr.bindErr(&Clause{Kind: "conforms", Label: spec.Conforms, File: spec.File, Line: spec.Line}, fmt.Errorf("unbound:%s", spec.Conforms))
		return
	}
	recvT := fr.fn.Params[0].Type()
	self := &Val{T: fmt.Sprintf("(mk-iface %d %s)", e.tagOf(recvT), args[0].T), S: "Iface"}
	// interface type: find by key prefix "(pkg.Name).Method"
	ik := spec.Conforms[1:strings.Index(spec.Conforms, ")")]
	if it := e.typeByKey(ik); it != nil {
		self.GoT = it
	}
	fr.env["self"] = self
	if al := e.g.specs.Abstractions[typeKey(e.g, recvT)]; al != nil {
		fr.ghostAlias, fr.aliasSelf = al, self
		rv := *args[0]
		rv.GoT = recvT
		fr.aliasRecv = &rv
	}
	names := is.Names
	for i, n := range names {
		if i == 0 || i >= len(args) {
			continue
		}
		fr.env[n] = args[i]
	}
	for _, c := range is.Requires {
		t, err := fr.evalClause(c, st, st, nil, nil)
		if err != nil {
			fr.bindErr(c, err)
			continue
		}
		fr.extraRequires = append(fr.extraRequires, t)
	}
	for _, c := range is.Ensures {
		cc := *c
		cc.Label = "conform:" + c.Label
		fr.extraEnsures = append(fr.extraEnsures, &cc)
	}
	fr.extraModifies = append(fr.extraModifies, is.Modifies...)
}

func (e *Enc) emitAxioms() {
	fr := &Frame{e: e, env: map[string]*Val{}, specVars: map[string]*Val{}, key: "axiom"}
	st := &State{pc: "true", heap: map[string]string{}}
	for _, a := range e.g.specs.Axioms {
		t, err := fr.evalClause(a, st, st, nil, nil)
		if err != nil {
			e.g.reportBindErr("axiom", a, err)
			continue
		}
		e.trusted["axiom ["+a.Label+"]"] = true
		e.fact(t)
	}
}

// atAsserts: call-site assertions declared by the function under verification ("at <callee> assert").
func (fr *Frame) atAsserts(callee string, args []*Val, sig *types.Signature, st *State, pos token.Pos) {
	root := fr.root()
	if root.spec == nil || !root.isTop || len(root.spec.AtAsserts) == 0 {
		return
	}
	for _, a := range root.spec.AtAsserts {
		if a.Callee != callee {
			continue
		}
		saved := root.specVars
		root.specVars = map[string]*Val{}
		for k, v := range saved {
			root.specVars[k] = v
		}
		var ptypes []types.Type
		if sig != nil && sig.Recv() != nil {
			ptypes = append(ptypes, sig.Recv().Type())
		}
		if sig != nil {
			for i := 0; i < sig.Params().Len(); i++ {
				ptypes = append(ptypes, sig.Params().At(i).Type())
			}
		}
		for i, v := range args {
			vv := *v
			if vv.GoT == nil && i < len(ptypes) {
				vv.GoT = ptypes[i]
			}
			root.specVars[fmt.Sprintf("arg%d", i)] = &vv
		}
		// local names denote the definition that dominates the call site; if none does (a value defined on one
		// path only), the latest definition executed so far
		sb := root.curBlock
		t, err := root.evalClause(a.Clause, st, root.entry, nil, nil)
		if err != nil && strings.Contains(err.Error(), "unbound:") {
			root.curBlock = nil
			t, err = root.evalClause(a.Clause, st, root.entry, nil, nil)
		}
		root.curBlock = sb
		root.specVars = saved
		if err != nil {
			fr.bindErr(a.Clause, err)
			continue
		}
		if a.Assume {
			fr.e.trusted["assumption at call of "+callee+" in "+root.key+" ["+a.Clause.Label+"]"] = true
			fr.e.assume(st.pc, t)
		} else {
			fr.e.oblige("at", callee+":"+a.Clause.Label, st.pc, t, a.Clause.Props, pos, fr.srcText(pos))
		}
		root.atHits[a]++
	}
}
