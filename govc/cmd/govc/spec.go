package main

// Contract files: comment-only Go files (build tag verif) in /repo/<pkg>/zz_contracts_verif.go
// and trusted contracts for external functions in /verif/trusted/*.spec (same syntax).
// Every contract line starts with "//@".

import (
	"fmt"
	"os"
	"regexp"
	"strings"
)

type Clause struct {
	Internal bool // "checks": proved for the function, not assumed at its call sites
	Scope []string // heapinv: package names in which it is assumed
	Kind  string   // requires | ensures | invariant | lemma | assert
	Label string   // mandatory [label]
	Props []string // optional {C11,C12}: restricts the clause to these properties
	Expr  string
	File  string
	Line  int
}

type LoopSpec struct {
	Ordinal   int // 1-based, in order of loop-header position in the source
	Invs      []*Clause
	Decreases string
	Havoc     []string // extra havoc targets
}

type LetDef struct {
	Name string
	Expr string
}

type FuncSpec struct {
	Key       string
	File      string
	Line      int
	Props     []string
	Inline    bool
	Trusted   bool // contract is assumed, body (if any) not verified
	Pure      bool // modifies nothing (shorthand)
	NoBody    bool
	Nilable   map[string]bool
	Requires  []*Clause
	Ensures   []*Clause
	Modifies  []string
	HasMod    bool
	Lets      []LetDef
	Loops     map[int]*LoopSpec
	Ghost     []string // ghost statements executed after the call's havoc: "comp[target] = expr"
	PanicsOK  bool     // explicit panic(...) allowed (documented)
	Unshared  []string // params that are not yet shared: guarded_by obligations skipped
	MayPanic  []string
	Abstracts []string
	Names     []string // parameter names for external functions (no source names available)
	Fresh     []string
	Verify    bool // for trusted/external-with-body: no
	IsIface   bool
	AtAsserts []*AtAssert // assertions checked at every call site of a given callee inside this function
	Assumes   []*Clause // trusted postconditions: assumed by callers, not proved for the body (listed as assumptions)
	PerReturn bool   // check each ensures clause at each return site separately (simpler queries for functions with many exits)
	IOEffect  bool   // the function performs file-system effects (counted by io_calls())
	Conforms  string // key of the interface-method contract this method must satisfy
	Content   bool   // generate quantified content facts for append/copy
	Ownership bool   // enable byte-array ownership ghost state
	EngineOwned []string
}

type AtAssert struct {
	Callee string
	Clause *Clause
	Assume bool // "at <callee> assume": an explicit, listed assumption made at the call site
}

type SpecFunc struct {
	Name    string
	Params  []string // names
	PSorts  []string // spec sorts: int bool slice ...
	Ret     string
	Body    string // expression; empty => uninterpreted
	Opaque  bool   // declare-fun + axiom rather than define-fun
	File    string
	Line    int
	Trigger bool
}

type GhostField struct {
	Type string // type key, e.g. fio.ReadWriter, sync.RWMutex, datafile.DataFile
	Name string
	Sort string // spec sort
}

type GuardedBy struct {
	Type   string // struct type key e.g. xixi_kv.DB
	Lock   string // field name of the lock, e.g. mu
	Fields []string
}

type Lemma struct {
	Clause
	Vars []string
}

type Specs struct {
	Funcs   map[string]*FuncSpec
	SpecFns map[string]*SpecFunc
	SpecOrd []string
	Ghosts  map[string]*GhostField // key Type.Name
	GhostGl map[string]string      // ghost globals: name -> sort
	Abstractions map[string]map[string]string // impl type key -> interface ghost field key -> expression over self
	HeapInvs  []*Clause
	Rep       map[string][]string  // abstract ghost field "T.f" -> modifies targets of its representation
	Frameless map[string]bool      // ghost globals that every call may change unless its contract says otherwise (no frame obligations)
	Guards  []*GuardedBy
	Lemmas  []*Lemma
	Axioms  []*Clause
	Consts  map[string]string
	Files   []string
	Scan    map[string]int // count of assume/trusted/abstracts/opaque keywords
	Pools   map[string]*PoolDecl
	Preds   map[string]*SpecFunc // heap-reading predicates (macros): pred name(a, b) = expr
}

func NewSpecs() *Specs {
	return &Specs{Funcs: map[string]*FuncSpec{}, SpecFns: map[string]*SpecFunc{}, Ghosts: map[string]*GhostField{},
		GhostGl: map[string]string{}, Frameless: map[string]bool{}, Rep: map[string][]string{}, Abstractions: map[string]map[string]string{}, Consts: map[string]string{}, Scan: map[string]int{}, Pools: map[string]*PoolDecl{}, Preds: map[string]*SpecFunc{}}
}

var reLabel = regexp.MustCompile(`^\[([^\]]+)\]\s*`)
var reProps = regexp.MustCompile(`^\{([A-Z0-9, ]+)\}\s*`)

func parseClause(kind, rest, file string, line int) (*Clause, error) {
	c := &Clause{Kind: kind, File: file, Line: line}
	m := reLabel.FindStringSubmatch(rest)
	if m == nil {
		return nil, fmt.Errorf("%s:%d: %s clause needs a [label]", file, line, kind)
	}
	c.Label = m[1]
	rest = rest[len(m[0]):]
	if m := reProps.FindStringSubmatch(rest); m != nil {
		for _, p := range strings.Split(m[1], ",") {
			c.Props = append(c.Props, strings.TrimSpace(p))
		}
		rest = rest[len(m[0]):]
	}
	c.Expr = strings.TrimSpace(rest)
	return c, nil
}

func splitComma(s string) []string {
	var out []string
	depth := 0
	cur := ""
	for _, ch := range s {
		switch ch {
		case '(', '[':
			depth++
		case ')', ']':
			depth--
		}
		if ch == ',' && depth == 0 {
			out = append(out, strings.TrimSpace(cur))
			cur = ""
			continue
		}
		cur += string(ch)
	}
	if strings.TrimSpace(cur) != "" {
		out = append(out, strings.TrimSpace(cur))
	}
	return out
}

// LoadSpecFile parses one contract file.
func (sp *Specs) LoadSpecFile(path string) error {
	data, err := os.ReadFile(path)
	if err != nil {
		return err
	}
	sp.Files = append(sp.Files, path)
	var cur *FuncSpec
	var curLoop *LoopSpec
	var curPool *PoolDecl
	var lastExpr *string // continuation target
	lines := strings.Split(string(data), "\n")
	for i, raw := range lines {
		ln := i + 1
		t := strings.TrimSpace(raw)
		if !strings.HasPrefix(t, "//@") {
			continue
		}
		t = strings.TrimSpace(t[3:])
		if t == "" {
			continue
		}
		// strip trailing line comment " // ..."
		if k := strings.Index(t, " // "); k >= 0 {
			t = strings.TrimSpace(t[:k])
		}
		kw := t
		rest := ""
		if k := strings.IndexAny(t, " \t"); k >= 0 {
			kw, rest = t[:k], strings.TrimSpace(t[k+1:])
		}
		switch kw {
		case "assume", "trusted", "abstracts", "opaque":
			sp.Scan[kw]++
		}
		switch kw {
		case "func":
			key := rest
			if old, ok := sp.Funcs[key]; ok {
				return fmt.Errorf("%s:%d: duplicate contract for %s (first at %s:%d)", path, ln, key, old.File, old.Line)
			}
			cur = &FuncSpec{Key: key, File: path, Line: ln, Nilable: map[string]bool{}, Loops: map[int]*LoopSpec{}}
			if strings.HasPrefix(key, "iface ") {
				cur.IsIface = true
				cur.Key = strings.TrimSpace(key[6:])
			}
			sp.Funcs[cur.Key] = cur
			curLoop = nil
			lastExpr = nil
		case "props":
			if cur == nil {
				return fmt.Errorf("%s:%d: props outside func", path, ln)
			}
			cur.Props = append(cur.Props, strings.Fields(rest)...)
		case "inline":
			cur.Inline = true
		case "trusted":
			cur.Trusted = true
		case "pure":
			cur.Pure = true
			cur.HasMod = true
		case "panics_ok":
			cur.PanicsOK = true
		case "io_effect":
			cur.IOEffect = true
		case "per_return":
			cur.PerReturn = true
		case "content":
			cur.Content = true
		case "ownership":
			cur.Ownership = true
		case "engine_owned":
			cur.EngineOwned = append(cur.EngineOwned, strings.Fields(rest)...)
		case "conforms":
			cur.Conforms = rest
		case "pool":
			// pool <src> <TypeKey>   followed by "poolinv [label] expr" lines
			f := strings.Fields(rest)
			if len(f) != 2 {
				return fmt.Errorf("%s:%d: bad pool declaration", path, ln)
			}
			sp.Pools[f[0]] = &PoolDecl{Src: f[0], Type: f[1], File: path, Line: ln}
			curPool = sp.Pools[f[0]]
			cur = nil
		case "poolinv":
			if curPool == nil {
				return fmt.Errorf("%s:%d: poolinv outside pool", path, ln)
			}
			c, err := parseClause("poolinv", rest, path, ln)
			if err != nil {
				return err
			}
			curPool.Inv = append(curPool.Inv, c)
			lastExpr = &c.Expr
		case "params":
			cur.Names = strings.Fields(rest)
		case "nilable":
			for _, n := range strings.Fields(rest) {
				cur.Nilable[n] = true
			}
		case "unshared":
			cur.Unshared = append(cur.Unshared, strings.Fields(rest)...)
		case "abstracts":
			cur.Abstracts = append(cur.Abstracts, rest)
		case "requires", "ensures", "checks":
			if cur == nil {
				return fmt.Errorf("%s:%d: %s outside func", path, ln, kw)
			}
			c, err := parseClause(kw, rest, path, ln)
			if err != nil {
				return err
			}
			if kw == "checks" {
				// a postcondition about the function's own calls (result_of, called): proved, never exported to callers
				c.Kind = "ensures"
				c.Internal = true
			}
			if kw == "requires" {
				cur.Requires = append(cur.Requires, c)
			} else {
				cur.Ensures = append(cur.Ensures, c)
			}
			lastExpr = &c.Expr
		case "at":
			// at <callee key> assert [label] expr
			k := strings.Index(rest, " assert ")
			isAssume := false
			if k < 0 {
				k = strings.Index(rest, " assume ")
				isAssume = true
				sp.Scan["assume"]++
			}
			if cur == nil || k < 0 {
				return fmt.Errorf("%s:%d: bad at-assert", path, ln)
			}
			c, err := parseClause("at", strings.TrimSpace(rest[k+8:]), path, ln)
			if err != nil {
				return err
			}
			cur.AtAsserts = append(cur.AtAsserts, &AtAssert{Callee: strings.TrimSpace(rest[:k]), Clause: c, Assume: isAssume})
			lastExpr = &c.Expr
		case "assume":
			if cur == nil {
				return fmt.Errorf("%s:%d: assume outside func", path, ln)
			}
			c, err := parseClause("assume", rest, path, ln)
			if err != nil {
				return err
			}
			cur.Assumes = append(cur.Assumes, c)
			lastExpr = &c.Expr
		case "modifies":
			cur.HasMod = true
			if rest != "nothing" {
				cur.Modifies = append(cur.Modifies, splitComma(rest)...)
			}
			lastExpr = nil
		case "ghost":
			// "ghost field T.name sort" | "ghost global name sort" | inside func: "ghost <stmt>"
			f := strings.Fields(rest)
			if len(f) >= 3 && f[0] == "field" {
				k := strings.LastIndex(f[1], ".")
				g := &GhostField{Type: f[1][:k], Name: f[1][k+1:], Sort: f[2]}
				sp.Ghosts[g.Type+"."+g.Name] = g
			} else if len(f) >= 3 && f[0] == "global" {
				sp.GhostGl[f[1]] = f[2]
				if len(f) >= 4 && f[3] == "frameless" {
					sp.Frameless[f[1]] = true
				}
			} else if cur != nil {
				cur.Ghost = append(cur.Ghost, rest)
				lastExpr = &cur.Ghost[len(cur.Ghost)-1]
			} else {
				return fmt.Errorf("%s:%d: bad ghost declaration", path, ln)
			}
		case "let":
			k := strings.Index(rest, "=")
			if k < 0 || cur == nil {
				return fmt.Errorf("%s:%d: bad let", path, ln)
			}
			cur.Lets = append(cur.Lets, LetDef{strings.TrimSpace(rest[:k]), strings.TrimSpace(rest[k+1:])})
			lastExpr = &cur.Lets[len(cur.Lets)-1].Expr
		case "loop":
			var n int
			fmt.Sscanf(rest, "%d", &n)
			curLoop = &LoopSpec{Ordinal: n}
			cur.Loops[n] = curLoop
			lastExpr = nil
		case "invariant":
			if curLoop == nil {
				return fmt.Errorf("%s:%d: invariant outside loop", path, ln)
			}
			c, err := parseClause("invariant", rest, path, ln)
			if err != nil {
				return err
			}
			curLoop.Invs = append(curLoop.Invs, c)
			lastExpr = &c.Expr
		case "decreases":
			curLoop.Decreases = rest
			lastExpr = &curLoop.Decreases
		case "havoc":
			curLoop.Havoc = append(curLoop.Havoc, splitComma(rest)...)
		case "spec":
			// spec func name(a int, b int) int = expr     |  spec opaque func ...
			sf, err := parseSpecFunc(rest, path, ln)
			if err != nil {
				return err
			}
			if _, dup := sp.SpecFns[sf.Name]; dup {
				return fmt.Errorf("%s:%d: duplicate spec func %s", path, ln, sf.Name)
			}
			sp.SpecFns[sf.Name] = sf
			sp.SpecOrd = append(sp.SpecOrd, sf.Name)
			lastExpr = &sf.Body
			cur = nil
		case "pred":
			// pred INV_df(df) = expr   (macro over the current heap; parameters are untyped names)
			k := strings.Index(rest, "=")
			l, r := strings.Index(rest, "("), strings.Index(rest, ")")
			if k < 0 || l < 0 || r < 0 || r > k {
				return fmt.Errorf("%s:%d: bad pred", path, ln)
			}
			pf := &SpecFunc{Name: strings.TrimSpace(rest[:l]), Body: strings.TrimSpace(rest[k+1:]), File: path, Line: ln}
			for _, a := range strings.Split(rest[l+1:r], ",") {
				if strings.TrimSpace(a) != "" {
					pf.Params = append(pf.Params, strings.TrimSpace(a))
				}
			}
			sp.Preds[pf.Name] = pf
			lastExpr = &pf.Body
			cur = nil
		case "const":
			k := strings.Index(rest, "=")
			sp.Consts[strings.TrimSpace(rest[:k])] = strings.TrimSpace(rest[k+1:])
		case "lemma":
			// lemma [label] forall a, b :: expr
			c, err := parseClause("lemma", rest, path, ln)
			if err != nil {
				return err
			}
			l := &Lemma{Clause: *c}
			sp.Lemmas = append(sp.Lemmas, l)
			lastExpr = &l.Expr
			cur = nil
		case "axiom":
			c, err := parseClause("axiom", rest, path, ln)
			if err != nil {
				return err
			}
			sp.Axioms = append(sp.Axioms, c)
			sp.Scan["axiom"]++
			lastExpr = &c.Expr
			cur = nil
		case "abstraction":
			// abstraction fio.ReadWriter.size of *fio.FileIO = self.fd.fsz
			// (when the conformance of that implementation is checked, the interface's ghost field on the
			// receiver is read off the implementation's own state)
			k := strings.Index(rest, " of ")
			j := strings.Index(rest, "=")
			if k < 0 || j < k {
				return fmt.Errorf("%s:%d: bad abstraction", path, ln)
			}
			gk, impl, ex := strings.TrimSpace(rest[:k]), strings.TrimSpace(rest[k+4:j]), strings.TrimSpace(rest[j+1:])
			if sp.Abstractions[impl] == nil {
				sp.Abstractions[impl] = map[string]string{}
			}
			sp.Abstractions[impl][gk] = ex
			cur = nil
		case "rep":
			// rep index.ShardedIndex.model : type:btree.BTree.bm, ...   (representation of an abstract ghost field:
			// a modifies target on the ghost field implies the listed targets)
			k := strings.Index(rest, ":")
			sp.Rep[strings.TrimSpace(rest[:k])] = append(sp.Rep[strings.TrimSpace(rest[:k])], splitComma(rest[k+1:])...)
		case "heapinv":
			// heapinv [label] expr : a trusted invariant of ghost state, assumed at function entry and after every call
			c, err := parseClause("heapinv", rest, path, ln)
			if err != nil {
				return err
			}
			// optional scope: "in pkg1 pkg2 : expr" (assumed only in functions of those packages)
			if strings.HasPrefix(c.Expr, "in ") {
				if k := strings.Index(c.Expr, " : "); k > 0 {
					c.Scope = strings.Fields(c.Expr[3:k])
					c.Expr = strings.TrimSpace(c.Expr[k+3:])
				}
			}
			sp.HeapInvs = append(sp.HeapInvs, c)
			sp.Scan["heapinv"]++
			lastExpr = &c.Expr
			cur = nil
		case "guarded_by":
			// guarded_by xixi_kv.DB.mu : activeFile, olderFiles
			k := strings.Index(rest, ":")
			lk := strings.TrimSpace(rest[:k])
			j := strings.LastIndex(lk, ".")
			g := &GuardedBy{Type: lk[:j], Lock: lk[j+1:], Fields: splitComma(rest[k+1:])}
			sp.Guards = append(sp.Guards, g)
		case "|":
			// continuation of the previous expression
			if lastExpr == nil {
				return fmt.Errorf("%s:%d: continuation without expression", path, ln)
			}
			*lastExpr += " " + rest
		default:
			return fmt.Errorf("%s:%d: unknown contract keyword %q", path, ln, kw)
		}
	}
	return nil
}

var reSpecFunc = regexp.MustCompile(`^(opaque\s+)?func\s+(\w+)\(([^)]*)\)\s*(\w+)\s*(=\s*(.*))?$`)

func parseSpecFunc(rest, path string, ln int) (*SpecFunc, error) {
	m := reSpecFunc.FindStringSubmatch(rest)
	if m == nil {
		return nil, fmt.Errorf("%s:%d: bad spec func", path, ln)
	}
	sf := &SpecFunc{Name: m[2], Ret: m[4], Body: strings.TrimSpace(m[6]), Opaque: m[1] != "", File: path, Line: ln}
	if strings.TrimSpace(m[3]) != "" {
		for _, p := range strings.Split(m[3], ",") {
			f := strings.Fields(p)
			if len(f) != 2 {
				return nil, fmt.Errorf("%s:%d: bad spec func parameter %q", path, ln, p)
			}
			sf.Params = append(sf.Params, f[0])
			sf.PSorts = append(sf.PSorts, f[1])
		}
	}
	return sf, nil
}
