package main

// Specification expression language: parser (Pratt) and typed evaluator to SMT terms.

import (
	"go/token"
	"sort"
	"os"
	"fmt"
	"go/ast"
	"go/constant"
	"go/types"
	"strconv"
	"strings"
	"unicode"

	"golang.org/x/tools/go/ssa"
)

type SExpr struct {
	Op   string // num ident sel index call unary bin forall exists str
	Name string
	Args []*SExpr
	Vars []string
	Pats []*SExpr
}

type tok struct {
	k string // num ident op str eof
	s string
}

func lexSpec(s string) ([]tok, error) {
	var out []tok
	i := 0
	for i < len(s) {
		c := s[i]
		switch {
		case c == ' ' || c == '\t' || c == '\n':
			i++
		case unicode.IsDigit(rune(c)):
			j := i
			for j < len(s) && (unicode.IsDigit(rune(s[j])) || s[j] == 'x' || s[j] == '_' || (s[j] >= 'a' && s[j] <= 'f') || (s[j] >= 'A' && s[j] <= 'F')) {
				j++
			}
			out = append(out, tok{"num", strings.ReplaceAll(s[i:j], "_", "")})
			i = j
		case unicode.IsLetter(rune(c)) || c == '_' || c == '$':
			j := i
			for j < len(s) && (unicode.IsLetter(rune(s[j])) || unicode.IsDigit(rune(s[j])) || s[j] == '_' || s[j] == '$') {
				j++
			}
			out = append(out, tok{"ident", s[i:j]})
			i = j
		case c == '"':
			j := i + 1
			for j < len(s) && s[j] != '"' {
				j++
			}
			out = append(out, tok{"str", s[i+1 : j]})
			i = j + 1
		default:
			ops := []string{"<==>", "==>", "::", "&&", "||", "==", "!=", "<=", ">=", "<<", ">>", "+", "-", "*", "/", "%", "<", ">", "!", "(", ")", "[", "]", ",", ".", ":", "?", "{", "}"}
			matched := false
			for _, op := range ops {
				if strings.HasPrefix(s[i:], op) {
					out = append(out, tok{"op", op})
					i += len(op)
					matched = true
					break
				}
			}
			if !matched {
				return nil, fmt.Errorf("unexpected character %q in spec expression %q", c, s)
			}
		}
	}
	out = append(out, tok{"eof", ""})
	return out, nil
}

type sparser struct {
	toks []tok
	p    int
	src  string
}

func (p *sparser) peek() tok { return p.toks[p.p] }
func (p *sparser) next() tok  { t := p.toks[p.p]; p.p++; return t }
func (p *sparser) isOp(s string) bool {
	t := p.peek()
	return t.k == "op" && t.s == s
}
func (p *sparser) expect(s string) error {
	if !p.isOp(s) {
		return fmt.Errorf("expected %q at token %d in %q", s, p.p, p.src)
	}
	p.p++
	return nil
}

var specCache = map[string]*SExpr{}

func parseSpec(src string) (*SExpr, error) {
	if x, ok := specCache[src]; ok {
		return x, nil
	}
	toks, err := lexSpec(src)
	if err != nil {
		return nil, err
	}
	p := &sparser{toks: toks, src: src}
	x, err := p.expr(0)
	if err != nil {
		return nil, err
	}
	if p.peek().k != "eof" {
		return nil, fmt.Errorf("trailing tokens at %d in %q", p.p, src)
	}
	specCache[src] = x
	return x, nil
}

var binPrec = map[string]int{"<==>": 1, "==>": 2, "||": 3, "&&": 4, "==": 5, "!=": 5, "<": 5, "<=": 5, ">": 5, ">=": 5,
	"+": 6, "-": 6, "*": 7, "/": 7, "%": 7, "<<": 7, ">>": 7}

func (p *sparser) expr(minPrec int) (*SExpr, error) {
	// quantifiers bind loosest
	if t := p.peek(); t.k == "ident" && (t.s == "forall" || t.s == "exists") {
		p.next()
		q := &SExpr{Op: t.s}
		for {
			v := p.next()
			if v.k != "ident" {
				return nil, fmt.Errorf("bad quantifier variable in %q", p.src)
			}
			q.Vars = append(q.Vars, v.s)
			if p.isOp(",") {
				p.next()
				continue
			}
			break
		}
		if err := p.expect("::"); err != nil {
			return nil, err
		}
		// optional triggers { t1, t2 }
		if p.isOp("{") {
			p.next()
			for {
				t, err := p.expr(3)
				if err != nil {
					return nil, err
				}
				q.Pats = append(q.Pats, t)
				if p.isOp(",") {
					p.next()
					continue
				}
				break
			}
			if err := p.expect("}"); err != nil {
				return nil, err
			}
		}
		body, err := p.expr(0)
		if err != nil {
			return nil, err
		}
		q.Args = []*SExpr{body}
		return q, nil
	}
	lhs, err := p.unary()
	if err != nil {
		return nil, err
	}
	for {
		t := p.peek()
		if t.k != "op" {
			break
		}
		if t.s == "?" && minPrec <= 0 {
			p.next()
			a, err := p.expr(1)
			if err != nil {
				return nil, err
			}
			if err := p.expect(":"); err != nil {
				return nil, err
			}
			b, err := p.expr(0)
			if err != nil {
				return nil, err
			}
			lhs = &SExpr{Op: "call", Name: "ite", Args: []*SExpr{lhs, a, b}}
			continue
		}
		pr, ok := binPrec[t.s]
		if !ok || pr < minPrec {
			break
		}
		p.next()
		var rhs *SExpr
		if t.s == "==>" || t.s == "<==>" {
			rhs, err = p.expr(pr) // right associative
		} else {
			rhs, err = p.expr(pr + 1)
		}
		if err != nil {
			return nil, err
		}
		lhs = &SExpr{Op: "bin", Name: t.s, Args: []*SExpr{lhs, rhs}}
	}
	return lhs, nil
}

func (p *sparser) unary() (*SExpr, error) {
	if p.isOp("!") || p.isOp("-") {
		op := p.next().s
		x, err := p.unary()
		if err != nil {
			return nil, err
		}
		return &SExpr{Op: "unary", Name: op, Args: []*SExpr{x}}, nil
	}
	return p.postfix()
}

func (p *sparser) postfix() (*SExpr, error) {
	var x *SExpr
	t := p.next()
	switch {
	case t.k == "num":
		x = &SExpr{Op: "num", Name: t.s}
	case t.k == "str":
		x = &SExpr{Op: "str", Name: t.s}
	case t.k == "ident":
		x = &SExpr{Op: "ident", Name: t.s}
	case t.k == "op" && t.s == "(":
		// parenthesised; also tolerate Go-style (*T) conversions? not needed
		inner, err := p.expr(0)
		if err != nil {
			return nil, err
		}
		if err := p.expect(")"); err != nil {
			return nil, err
		}
		x = inner
	default:
		return nil, fmt.Errorf("unexpected token %q in %q", t.s, p.src)
	}
	for {
		switch {
		case p.isOp("."):
			p.next()
			n := p.next()
			if n.k != "ident" {
				return nil, fmt.Errorf("bad selector in %q", p.src)
			}
			x = &SExpr{Op: "sel", Name: n.s, Args: []*SExpr{x}}
		case p.isOp("["):
			p.next()
			if p.isOp("*") {
				p.next()
				if err := p.expect("]"); err != nil {
					return nil, err
				}
				x = &SExpr{Op: "all", Args: []*SExpr{x}}
				continue
			}
			i, err := p.expr(0)
			if err != nil {
				return nil, err
			}
			if err := p.expect("]"); err != nil {
				return nil, err
			}
			x = &SExpr{Op: "index", Args: []*SExpr{x, i}}
		case p.isOp("("):
			p.next()
			var args []*SExpr
			if !p.isOp(")") {
				for {
					a, err := p.expr(0)
					if err != nil {
						return nil, err
					}
					args = append(args, a)
					if p.isOp(",") {
						p.next()
						continue
					}
					break
				}
			}
			if err := p.expect(")"); err != nil {
				return nil, err
			}
			if x.Op == "ident" {
				x = &SExpr{Op: "call", Name: x.Name, Args: args}
			} else {
				x = &SExpr{Op: "callx", Args: append([]*SExpr{x}, args...)}
			}
		default:
			return x, nil
		}
	}
}

// ---------- evaluation ----------

type evalCtx struct {
	renaming bool
	noAlias bool
	fr       *Frame
	cur, old *State
	vars     map[string]*Val
	hdr      *ssa.BasicBlock
	override map[ssa.Value]*Val
	pkg      *types.Package
	specFn   bool
	inQuant  bool
	inOld    bool
}

// heapWF records the type invariant of a value read from the heap by a specification expression
// (the heap is well-typed in every state); skipped under quantifiers where the term has bound variables.
func (c *evalCtx) heapWF(t types.Type, term string) {
	if c.inQuant || t == nil || c.cur == nil {
		return
	}
	e := c.e()
	key := "wf:" + term
	if e.declared[key] {
		return
	}
	e.declared[key] = true
	e.fact(e.wf(t, term, e.next(c.cur)))
}

func specSort(s string) Sort {
	switch s {
	case "int", "ref":
		return "Int"
	case "bool":
		return "Bool"
	case "slice":
		return "Slice"
	case "iface":
		return "Iface"
	case "str":
		return "Int"
	case "intset":
		return "(Array Int Bool)"
	case "intarr", "bytes":
		return "(Array Int Int)"
	case "intmap":
		return "(Array Int Int)"
	}
	return s
}

func (fr *Frame) evalClause(c *Clause, cur, old *State, hdr *ssa.BasicBlock, override map[ssa.Value]*Val) (string, error) {
	v, err := fr.evalExprStr(c.Expr, cur, old, hdr, override)
	if err != nil {
		return "", fmt.Errorf("%s:%d [%s]: %v", shortFile(c.File), c.Line, c.Label, err)
	}
	if v.S != "Bool" {
		return "", fmt.Errorf("%s:%d [%s]: clause is not boolean", shortFile(c.File), c.Line, c.Label)
	}
	return v.T, nil
}

func (fr *Frame) evalExprStr(src string, cur, old *State, hdr *ssa.BasicBlock, override map[ssa.Value]*Val) (*Val, error) {
	x, err := parseSpec(src)
	if err != nil {
		return nil, err
	}
	c := &evalCtx{fr: fr, cur: cur, old: old, vars: map[string]*Val{}, hdr: hdr, override: override}
	if fr.fn != nil && fr.fn.Pkg != nil {
		c.pkg = fr.fn.Pkg.Pkg
	} else if fr.fn != nil && fr.fn.Parent() != nil && fr.fn.Parent().Pkg != nil {
		c.pkg = fr.fn.Parent().Pkg.Pkg
	} else if fr.specPkg != nil {
		c.pkg = fr.specPkg
	}
	for k, v := range fr.specVars {
		c.vars[k] = v
	}
	return c.ev(x)
}

func (c *evalCtx) e() *Enc { return c.fr.e }

func (c *evalCtx) with(st *State) *evalCtx {
	n := *c
	n.cur = st
	return &n
}

func parseNum(s string) (string, error) {
	if strings.HasPrefix(s, "0x") {
		n, err := strconv.ParseUint(s[2:], 16, 64)
		if err != nil {
			return "", err
		}
		return strconv.FormatUint(n, 10), nil
	}
	if _, err := strconv.ParseUint(s, 10, 64); err != nil {
		// allow big decimal literals
		for _, ch := range s {
			if ch < '0' || ch > '9' {
				return "", fmt.Errorf("bad number %q", s)
			}
		}
	}
	return s, nil
}

func (c *evalCtx) ev(x *SExpr) (*Val, error) {
	e := c.e()
	switch x.Op {
	case "num":
		n, err := parseNum(x.Name)
		if err != nil {
			return nil, err
		}
		return &Val{T: n, S: "Int"}, nil
	case "str":
		return &Val{T: e.strID(x.Name), S: "Int"}, nil
	case "ident":
		return c.ident(x.Name)
	case "unary":
		a, err := c.ev(x.Args[0])
		if err != nil {
			return nil, err
		}
		if x.Name == "!" {
			return &Val{T: sNot(a.T), S: "Bool"}, nil
		}
		return &Val{T: "(- " + a.T + ")", S: "Int"}, nil
	case "bin":
		return c.bin(x)
	case "forall", "exists":
		n := *c
		n.inQuant = true
		n.vars = map[string]*Val{}
		for k, v := range c.vars {
			n.vars[k] = v
		}
		var bs []string
		for _, v := range x.Vars {
			e.ctr++
			qn := fmt.Sprintf("q_%s_%d", v, e.ctr)
			n.vars[v] = &Val{T: qn, S: "Int"}
			bs = append(bs, "("+qn+" Int)")
		}
		body, err := n.ev(x.Args[0])
		if err != nil {
			return nil, err
		}
		var pats []string
		alt := ""
		for _, p := range x.Pats {
			pv, err := n.ev(p)
			if err != nil {
				return nil, err
			}
			pats = append(pats, pv.T)
			alt = pv.PatAlt
		}
		bt := body.T
		if len(pats) == 1 && alt != "" {
			// a map lookup as the trigger: membership tests of the same key fire it as well
			bt = "(! " + bt + " :pattern (" + pats[0] + ") :pattern (" + alt + "))"
		} else if len(pats) > 0 {
			bt = "(! " + bt + " :pattern (" + strings.Join(pats, " ") + "))"
		}
		return &Val{T: "(" + x.Op + " (" + strings.Join(bs, " ") + ") " + bt + ")", S: "Bool"}, nil
	case "sel":
		return c.sel(x)
	case "index":
		return c.index(x)
	case "call":
		return c.call(x)
	}
	return nil, fmt.Errorf("unsupported spec expression form %s", x.Op)
}

func (c *evalCtx) ident(name string) (*Val, error) {
	e := c.e()
	if v, ok := c.vars[name]; ok {
		return v, nil
	}
	switch name {
	case "nil":
		return &Val{T: "nil", S: "Nil"}, nil
	case "true", "false":
		return &Val{T: name, S: "Bool"}, nil
	}
	fr := c.fr
	for _, l := range fr.lets {
		if l.Name == name {
			px, err := parseSpec(l.Expr)
			if err != nil {
				return nil, err
			}
			return c.ev(px)
		}
	}
	// in a loop invariant a name denotes the loop-carried variable; under old() it denotes the entry value (parameter)
	if c.hdr != nil && !c.inOld && fr.fn != nil {
		if v := fr.lookupLocal(name, c.hdr, c.override, c.cur); v != nil {
			return v, nil
		}
	}
	if v, ok := fr.env[name]; ok {
		return v, nil
	}
	if fr.fn != nil {
		if v := fr.lookupLocal(name, c.hdr, c.override, c.cur); v != nil {
			return v, nil
		}
		for i, fv := range fr.fn.FreeVars {
			if fv.Name() == name {
				p := fr.vals[fr.fn.FreeVars[i]]
				if p != nil {
					ld := fr.loadQuiet(c.cur, p)
					return ld, nil
				}
			}
		}
	}
	if ex, ok := e.g.specs.Consts[name]; ok {
		px, err := parseSpec(ex)
		if err != nil {
			return nil, err
		}
		return c.ev(px)
	}
	if srt, ok := e.g.specs.GhostGl[name]; ok {
		s := specSort(srt)
		return &Val{T: e.get(c.cur, "GG_"+name, s), S: s}, nil
	}
	if c.pkg != nil {
		if v, err := c.pkgObj(c.pkg, name); v != nil || err != nil {
			return v, err
		}
	}
	if fr.fn != nil && !c.renaming {
		if alias := fr.renamedLocal(name); alias != "" {
			n := *c
			n.renaming = true
			if v, err := n.ident(alias); err == nil {
				fr.e.abstr[fmt.Sprintf("contract of %s names the local %q; the function now calls it %q (same position in the list of locals): read with the new name", fr.key, name, alias)] = true
				return v, nil
			}
		}
	}
	return nil, fmt.Errorf("unbound:%s", name)
}

func (c *evalCtx) pkgObj(pkg *types.Package, name string) (*Val, error) {
	e := c.e()
	obj := pkg.Scope().Lookup(name)
	if obj == nil {
		return nil, nil
	}
	switch o := obj.(type) {
	case *types.Const:
		switch o.Val().Kind() {
		case constant.Int:
			s := o.Val().ExactString()
			if strings.HasPrefix(s, "-") {
				s = "(- " + s[1:] + ")"
			}
			return &Val{T: s, S: "Int", GoT: o.Type()}, nil
		case constant.Bool:
			return &Val{T: fmt.Sprint(constant.BoolVal(o.Val())), S: "Bool"}, nil
		case constant.String:
			return &Val{T: e.strID(constant.StringVal(o.Val())), S: "Int", GoT: o.Type()}, nil
		}
	case *types.Var:
		sp := e.g.prog.Package(pkg)
		if sp == nil {
			return nil, fmt.Errorf("package %s not built", pkg.Path())
		}
		gl, ok := sp.Members[name].(*ssa.Global)
		if !ok {
			return nil, fmt.Errorf("%s is not a global", name)
		}
		p := e.globalPtr(gl)
		if c.fr.isImmGlobal(p.Loc) {
			return &Val{T: e.immGlobalVal(p.Loc), S: e.sortOf(p.Loc.GoT), GoT: p.Loc.GoT}, nil
		}
		return &Val{T: e.locRead(c.cur, p.Loc), S: e.sortOf(p.Loc.GoT), GoT: p.Loc.GoT}, nil
	}
	return nil, nil
}

func (c *evalCtx) findPkg(name string) *types.Package {
	g := c.e().g
	if c.pkg != nil {
		if c.pkg.Name() == name {
			return c.pkg
		}
		for _, im := range c.pkg.Imports() {
			if im.Name() == name {
				return im
			}
		}
	}
	for _, p := range g.prog.AllPackages() {
		if p.Pkg.Name() == name {
			return p.Pkg
		}
	}
	return nil
}

func coerceNil(a, b *Val, e *Enc) (*Val, *Val) {
	z := func(o *Val) *Val {
		switch o.S {
		case "Slice":
			return &Val{T: "nilslice", S: "Slice"}
		case "Iface":
			return &Val{T: "niliface", S: "Iface"}
		}
		return &Val{T: "0", S: "Int"}
	}
	if a.S == "Nil" && b.S != "Nil" {
		a = z(b)
	}
	if b.S == "Nil" && a.S != "Nil" {
		b = z(a)
	}
	return a, b
}

func (c *evalCtx) bin(x *SExpr) (*Val, error) {
	a, err := c.ev(x.Args[0])
	if err != nil {
		return nil, err
	}
	b, err := c.ev(x.Args[1])
	if err != nil {
		return nil, err
	}
	bo := func(t string) (*Val, error) { return &Val{T: t, S: "Bool"}, nil }
	in := func(t string) (*Val, error) { return &Val{T: t, S: "Int"}, nil }
	switch x.Name {
	case "==>":
		return bo(sImp(a.T, b.T))
	case "<==>":
		return bo(sEq(a.T, b.T))
	case "&&":
		return bo(sAnd(a.T, b.T))
	case "||":
		return bo(sOr(a.T, b.T))
	case "==", "!=":
		na, nb := a.S == "Nil", b.S == "Nil"
		a, b = coerceNil(a, b, c.e())
		var t string
		if (na || nb) && (a.S == "Slice") {
			o := a
			if na {
				o = b
			}
			t = "(= (s-arr " + o.T + ") 0)"
		} else {
			t = sEq(a.T, b.T)
		}
		if x.Name == "!=" {
			t = sNot(t)
		}
		return bo(t)
	case "<", "<=", ">", ">=":
		return bo("(" + x.Name + " " + a.T + " " + b.T + ")")
	case "+", "-", "*":
		return in("(" + x.Name + " " + a.T + " " + b.T + ")")
	case "/":
		return in("(div " + a.T + " " + b.T + ")")
	case "%":
		return in("(mod " + a.T + " " + b.T + ")")
	case "<<":
		return in("(* " + a.T + " " + shiftPow(b.T) + ")")
	case ">>":
		return in("(div " + a.T + " " + shiftPow(b.T) + ")")
	}
	return nil, fmt.Errorf("bad operator %s", x.Name)
}

func shiftPow(t string) string {
	n, err := strconv.Atoi(t)
	if err != nil || n < 0 || n > 200 {
		return "(bshl 1 " + t + ")"
	}
	return pow2(n)
}

func namedOf(t types.Type) types.Type {
	t = types.Unalias(t)
	if p, ok := t.Underlying().(*types.Pointer); ok {
		if _, isNamed := t.(*types.Named); !isNamed {
			return types.Unalias(p.Elem())
		}
	}
	return t
}

func (c *evalCtx) sel(x *SExpr) (*Val, error) {
	e := c.e()
	// package-qualified identifier
	if x.Args[0].Op == "ident" {
		n := x.Args[0].Name
		_, isVar := c.vars[n]
		_, isEnv := c.fr.env[n]
		if !isVar && !isEnv && (c.fr.fn == nil || c.fr.lookupLocal(n, c.hdr, c.override, c.cur) == nil) {
			if p := c.findPkg(n); p != nil {
				v, err := c.pkgObj(p, x.Name)
				if err != nil {
					return nil, err
				}
				if v != nil {
					return v, nil
				}
				return nil, fmt.Errorf("unbound:%s.%s", n, x.Name)
			}
		}
	}
	base, err := c.ev(x.Args[0])
	if err != nil {
		return nil, err
	}
	if base.GoT == nil {
		return nil, fmt.Errorf("cannot select .%s on an untyped spec value", x.Name)
	}
	nt := namedOf(base.GoT)
	key := typeKey(e.g, nt)
	// ghost field?
	if g, ok := e.g.specs.Ghosts[key+"."+x.Name]; ok {
		// conformance check of an implementation: the interface's ghost field on the receiver is the
		// implementation's own abstraction of it
		if root := c.fr.root(); root.aliasSelf != nil && base.T == root.aliasSelf.T && !c.noAlias {
			if ex, ok := root.ghostAlias[key+"."+x.Name]; ok {
				px, err := parseSpec(ex)
				if err != nil {
					return nil, err
				}
				n := *c
				n.noAlias = false
				n.vars = map[string]*Val{}
				for k, v := range c.vars {
					n.vars[k] = v
				}
				n.vars["self"] = root.aliasRecv
				return n.ev(px)
			}
			root.unaliased = key + "." + x.Name
		}
		s := specSort(g.Sort)
		idx := base.T
		if base.S == "Iface" {
			idx = "(i-val " + base.T + ")"
		}
		comp := "G_" + san(key) + "_" + x.Name
		return &Val{T: sSel(e.get(c.cur, comp, "(Array Int "+s+")"), idx), S: s,
			Loc: &Loc{Kind: locField, Comp: comp, CS: s, Base: idx}}, nil
	}
	u, ok := nt.Underlying().(*types.Struct)
	if !ok {
		return nil, fmt.Errorf("unbound:%s (no field or ghost field %s on %s)", x.Name, x.Name, key)
	}
	for i := 0; i < u.NumFields(); i++ {
		if u.Field(i).Name() != x.Name {
			continue
		}
		ft := u.Field(i).Type()
		if _, isPtr := base.GoT.Underlying().(*types.Pointer); isPtr {
			if _, isSt := ft.Underlying().(*types.Struct); isSt && e.isOpaqueStruct(ft) {
				// an embedded external struct (e.g. a sync.RWMutex held by value): denote it by its address,
				// which is what method calls on it receive and what its ghost fields are keyed by
				return &Val{T: "(" + e.fpFun(key, x.Name) + " " + base.T + ")", S: "Int", GoT: types.NewPointer(ft)}, nil
			}
			comp, cs, _ := e.fieldComp(nt, i)
			v := &Val{T: sSel(e.get(c.cur, comp, "(Array Int "+cs+")"), base.T), S: cs, GoT: ft}
			c.heapWF(ft, v.T)
			// remember location for modifies targets
			v.Loc = &Loc{Kind: locField, Comp: comp, CS: cs, Base: base.T, GoT: ft, StructKey: key, Field: x.Name}
			return v, nil
		}
		// struct value
		ds := e.sortOf(nt)
		v := &Val{T: fmt.Sprintf("(%s_%d %s)", ds, i, base.T), S: e.sortOf(ft), GoT: ft}
		if base.Loc != nil {
			nl := *base.Loc
			var fss []Sort
			for k := 0; k < u.NumFields(); k++ {
				fss = append(fss, e.sortOf(u.Field(k).Type()))
			}
			nl.Path = append(append([]accessor{}, base.Loc.Path...), accessor{DT: ds, Idx: i, N: u.NumFields(), FS: fss})
			nl.GoT = ft
			v.Loc = &nl
		}
		return v, nil
	}
	return nil, fmt.Errorf("unbound:%s (type %s has no such field)", x.Name, key)
}

func (c *evalCtx) index(x *SExpr) (*Val, error) {
	e := c.e()
	a, err := c.ev(x.Args[0])
	if err != nil {
		return nil, err
	}
	i, err := c.ev(x.Args[1])
	if err != nil {
		return nil, err
	}
	if a.GoT != nil {
		switch t := a.GoT.Underlying().(type) {
		case *types.Slice:
			comp, es := e.elemComp(t.Elem())
			base, idx := "(s-arr "+a.T+")", "(ix (s-off "+a.T+") "+i.T+")"
			c.heapWF(t.Elem(), sSel(sSel(e.get(c.cur, comp, arrSort(es)), base), idx))
			return &Val{T: sSel(sSel(e.get(c.cur, comp, arrSort(es)), base), idx), S: es, GoT: t.Elem(),
				Loc: &Loc{Kind: locElem, Comp: comp, CS: es, Base: base, Idx: idx, GoT: t.Elem()}}, nil
		case *types.Map:
			dom, val, _, ks, vs := e.mapComps(t)
			return &Val{T: sSel(sSel(e.get(c.cur, val, "(Array Int (Array "+ks+" "+vs+"))"), a.T), i.T), S: vs, GoT: t.Elem(),
				PatAlt: sSel(sSel(e.get(c.cur, dom, "(Array Int (Array "+ks+" Bool))"), a.T), i.T)}, nil
		}
	}
	if strings.HasPrefix(a.S, "(Array ") {
		es := "Int"
		if strings.HasSuffix(a.S, " Bool)") {
			es = "Bool"
		}
		return &Val{T: sSel(a.T, i.T), S: es}, nil
	}
	return nil, fmt.Errorf("cannot index value of sort %s", a.S)
}

func (c *evalCtx) evs(xs []*SExpr) ([]*Val, error) {
	var out []*Val
	for _, x := range xs {
		v, err := c.ev(x)
		if err != nil {
			return nil, err
		}
		out = append(out, v)
	}
	return out, nil
}

func (c *evalCtx) call(x *SExpr) (*Val, error) {
	e := c.e()
	name := x.Name
	if name == "old" {
		if len(x.Args) != 1 {
			return nil, fmt.Errorf("old takes one argument")
		}
		n := c.with(c.old)
		n.inOld = true
		return n.ev(x.Args[0])
	}
	args, err := c.evs(x.Args)
	if err != nil {
		return nil, err
	}
	bo := func(t string) (*Val, error) { return &Val{T: t, S: "Bool"}, nil }
	in := func(t string) (*Val, error) { return &Val{T: t, S: "Int"}, nil }
	need := func(n int) error {
		if len(args) != n {
			return fmt.Errorf("%s takes %d arguments", name, n)
		}
		return nil
	}
	switch name {
	case "ite":
		if err := need(3); err != nil {
			return nil, err
		}
		a, b := coerceNil(args[1], args[2], e)
		return &Val{T: sIte(args[0].T, a.T, b.T), S: a.S, GoT: a.GoT}, nil
	case "min":
		return in("(imin " + args[0].T + " " + args[1].T + ")")
	case "max":
		return in("(imax " + args[0].T + " " + args[1].T + ")")
	case "len":
		a := args[0]
		if a.S == "Slice" {
			return in("(s-len " + a.T + ")")
		}
		if a.GoT != nil {
			if m, ok := a.GoT.Underlying().(*types.Map); ok {
				_, _, cnt, _, _ := e.mapComps(m)
				return in(sIte("(= "+a.T+" 0)", "0", sSel(e.get(c.cur, cnt, "(Array Int Int)"), a.T)))
			}
		}
		return in("(strlen " + a.T + ")")
	case "cap":
		return in("(s-cap " + args[0].T + ")")
	case "arr":
		return in("(s-arr " + args[0].T + ")")
	case "off":
		return in("(s-off " + args[0].T + ")")
	case "tag":
		return in("(i-tag " + args[0].T + ")")
	case "dyn":
		return in("(i-val " + args[0].T + ")")
	case "has":
		m, ok := args[0].GoT.Underlying().(*types.Map)
		if !ok {
			return nil, fmt.Errorf("has() needs a map")
		}
		dom, _, _, ks, _ := e.mapComps(m)
		return bo(sAnd("(not (= "+args[0].T+" 0))", sSel(sSel(e.get(c.cur, dom, "(Array Int (Array "+ks+" Bool))"), args[0].T), args[1].T)))
	case "io_calls":
		if e.ioCount == "" {
			return in("0")
		}
		return in(e.ioCount)
	case "indom":
		m, ok := args[0].GoT.Underlying().(*types.Map)
		if !ok {
			return nil, fmt.Errorf("indom() needs a map")
		}
		dom, _, _, ks, _ := e.mapComps(m)
		return bo(sSel(sSel(e.get(c.cur, dom, "(Array Int (Array "+ks+" Bool))"), args[0].T), args[1].T))
	case "elemaddr":
		// elemaddr(s, i): the address of element i of slice s (what &s[i] evaluates to)
		return &Val{T: "(ep (s-arr " + args[0].T + ") (ix (s-off " + args[0].T + ") " + args[1].T + "))", S: "Int"}, nil
	case "unboxBytes":
		// unboxBytes(x): the []byte value held by the interface value x
		bt := types.NewSlice(types.Typ[types.Byte])
		return &Val{T: sSel(e.get(c.cur, "Bx_Slice", "(Array Int Slice)"), "(i-val "+args[0].T+")"), S: "Slice", GoT: bt}, nil
	case "unshared":
		// unshared(x): x is an object created by the function under verification and not yet visible
		// to other goroutines (decided statically; false inside the callee's own verification)
		if c.fr.callerFrame != nil && c.fr.callerFrame.isUnshared(args[0].T) {
			return bo("true")
		}
		return bo("false")
	case "allocatedBefore":
		// the object existed when the function under verification was entered
		return bo("(and (< 0 " + args[0].T + ") (< " + args[0].T + " $next!0))")
	case "allocated":
		return bo("(and (< 0 " + args[0].T + ") (< " + args[0].T + " " + e.next(c.cur) + "))")
	case "fresh":
		t := args[0].T
		if args[0].S == "Slice" {
			t = "(s-arr " + t + ")"
		}
		if args[0].S == "Iface" {
			t = "(i-val " + t + ")"
		}
		return bo("(and (<= " + e.next(c.old) + " " + t + ") (< " + t + " " + e.next(c.cur) + "))")
	case "isType":
		// isType(x, "fio.FileIO") — dynamic type test by type key
		want := x.Args[1].Name
		for _, t := range e.g.allTypes {
			for _, cand := range []types.Type{t, types.NewPointer(t)} {
				if typeKey(e.g, cand) == want {
					return bo(fmt.Sprintf("(= (i-tag %s) %d)", args[0].T, e.tagOf(cand)))
				}
			}
		}
		if t := e.typeByKey(want); t != nil {
			return bo(fmt.Sprintf("(= (i-tag %s) %d)", args[0].T, e.tagOf(t)))
		}
		return nil, fmt.Errorf("unbound:type %s", want)
	case "content":
		a := args[0]
		sl, ok := a.GoT.Underlying().(*types.Slice)
		if !ok {
			return nil, fmt.Errorf("content() needs a slice")
		}
		comp, es := e.elemComp(sl.Elem())
		return &Val{T: sSel(e.get(c.cur, comp, arrSort(es)), "(s-arr "+a.T+")"), S: "(Array Int " + es + ")"}, nil
	case "crc":
		// crc(s, lo, hi): checksum of s[lo:hi]
		a := args[0]
		comp, es := e.elemComp(a.GoT.Underlying().(*types.Slice).Elem())
		cont := sSel(e.get(c.cur, comp, arrSort(es)), "(s-arr "+a.T+")")
		return in("(crcOf " + cont + " (+ (s-off " + a.T + ") " + args[1].T + ") (+ (s-off " + a.T + ") " + args[2].T + "))")
	case "crcCat":
		a := args[1]
		comp, es := e.elemComp(a.GoT.Underlying().(*types.Slice).Elem())
		cont := sSel(e.get(c.cur, comp, arrSort(es)), "(s-arr "+a.T+")")
		return in("(crcCat " + args[0].T + " " + cont + " (+ (s-off " + a.T + ") " + args[2].T + ") (+ (s-off " + a.T + ") " + args[3].T + "))")
	case "crcArr":
		return in("(crcOf " + args[0].T + " " + args[1].T + " " + args[2].T + ")")
	case "sel":
		es := "Int"
		return &Val{T: sSel(args[0].T, args[1].T), S: es}, nil
	case "store":
		return &Val{T: sStore(args[0].T, args[1].T, args[2].T), S: args[0].S}, nil
	case "result_of", "called", "first_result_of":
		// result_of("callee key"): the value returned by the call(s) of that callee inside the function
		// under verification; called("callee key"): whether such a call was reached
		key := x.Args[0].Name
		crs := c.fr.root().callResults[key]
		if name == "called" && len(crs) == 0 {
			return bo("false")
		}
		if len(crs) == 0 {
			return nil, fmt.Errorf("unbound:no call of %s", key)
		}
		if name == "called" {
			var pcs []string
			for _, cr := range crs {
				pcs = append(pcs, cr.pc)
			}
			return bo(sOr(pcs...))
		}
		for _, cr := range crs {
			if cr.val == nil {
				return nil, fmt.Errorf("result_of: %s returns nothing", key)
			}
		}
		if name != "first_result_of" {
			// result_of: the value returned by the last call reached on the path (the chain below gives
			// priority to the entries that come first); first_result_of: by the first one
			rev := make([]callRes, len(crs))
			for i := range crs {
				rev[len(crs)-1-i] = crs[i]
			}
			crs = rev
		}
		v := crs[len(crs)-1].val
		if v.Tup != nil {
			idx := 0
			if len(args) > 1 {
				fmt.Sscanf(args[1].T, "%d", &idx)
			}
			if idx >= len(v.Tup) {
				return nil, fmt.Errorf("result_of: no result %d", idx)
			}
			t := v.Tup[idx].T
			for k := len(crs) - 2; k >= 0; k-- {
				t = sIte(crs[k].pc, crs[k].val.Tup[idx].T, t)
			}
			return &Val{T: t, S: v.Tup[idx].S, GoT: v.Tup[idx].GoT}, nil
		}
		t := v.T
		for k := len(crs) - 2; k >= 0; k-- {
			t = sIte(crs[k].pc, crs[k].val.T, t)
		}
		return &Val{T: t, S: v.S, GoT: v.GoT}, nil
	case "visited":
		// visited(): number of keys the map range loop whose invariant this is has visited so far
		var comp string
		for _, b := range c.fr.fn.Blocks {
			for _, in := range b.Instrs {
				if nx, ok := in.(*ssa.Next); ok && !nx.IsString && (c.hdr == nil || nx.Block() == c.hdr) {
					comp = "SeenN_" + san(c.fr.prefix+"_"+nx.Iter.(*ssa.Range).Name())
				}
			}
		}
		if comp == "" {
			return nil, fmt.Errorf("unbound:visited() outside a map range loop")
		}
		return in(e.get(c.cur, comp, "Int"))
	case "closure":
		// closure(f, "name suffix"): the function value f is, statically, the closure with that name
		if args[0].Clo != nil && args[0].Clo.Fn != nil && strings.HasSuffix(fnKey(e.g, args[0].Clo.Fn), x.Args[1].Name) {
			return bo("true")
		}
		return bo("false")
	case "seen":
		// seen(k): key k has been visited by the map range loop whose invariant this is
		var comp string
		for rng, cname := range c.fr.seenComp {
			if c.hdr == nil || len(c.fr.seenComp) == 1 {
				comp = cname
				break
			}
			for _, ref := range *rng.Referrers() {
				if nx, ok := ref.(*ssa.Next); ok && nx.Block() == c.hdr {
					comp = cname
				}
			}
		}
		if comp == "" {
			// the Next instruction has not been executed yet (invariant on entry): nothing seen
			for _, b := range c.fr.fn.Blocks {
				for _, in := range b.Instrs {
					if nx, ok := in.(*ssa.Next); ok && !nx.IsString && (c.hdr == nil || nx.Block() == c.hdr) {
						rng := nx.Iter.(*ssa.Range)
						comp = "Seen_" + san(c.fr.prefix+"_"+rng.Name())
						c.fr.seenComp[rng] = comp
					}
				}
			}
		}
		if comp == "" {
			return nil, fmt.Errorf("unbound:seen() outside a map range loop")
		}
		ks := "Int"
		return &Val{T: sSel(e.get(c.cur, comp, "(Array "+ks+" Bool)"), args[0].T), S: "Bool"}, nil
	case "keyid":
		// abstract identity of a byte string: an uninterpreted function of its bytes
		a := args[0]
		sl, ok := a.GoT.Underlying().(*types.Slice)
		if !ok {
			return nil, fmt.Errorf("keyid() needs a byte slice")
		}
		comp, es := e.elemComp(sl.Elem())
		e.needStrOf()
		return in("(strOf " + sSel(e.get(c.cur, comp, arrSort(es)), "(s-arr "+a.T+")") + " (s-off " + a.T + ") (s-len " + a.T + "))")
	case "deref":
		return c.fr.loadQuiet(c.cur, args[0]), nil
	case "as":
		t := e.typeByKey(x.Args[0].Name)
		if t == nil {
			return nil, fmt.Errorf("unbound:type %s", x.Args[0].Name)
		}
		return &Val{T: args[1].T, S: e.sortOf(t), GoT: t}, nil
	case "owned":
		// owned(x): the byte slice x is nil or its array belongs to the engine
		// (array ownership is tracked only in functions declared "ownership"; elsewhere the predicate is not constrained)
		if !e.ownerOn() {
			return bo("true")
		}
		t := "(s-arr " + args[0].T + ")"
		return bo(sOr("(= "+t+" 0)", "(= "+sSel(e.get(c.cur, "Owner", "(Array Int Int)"), t)+" 1)"))
	case "owner":
		t := args[0].T
		if args[0].S == "Slice" {
			t = "(s-arr " + t + ")"
		}
		return in(sSel(e.get(c.cur, "Owner", "(Array Int Int)"), t))
	case "int64", "int32", "int16", "int8", "int", "uint64", "uint32", "uint16", "uint8", "uint", "byte":
		bt := types.Universe.Lookup(name).Type()
		return &Val{T: wrapInt(args[0].T, bt), S: "Int", GoT: bt}, nil
	case "iface":
		// iface("*fio.FileIO", p): wrap pointer into interface value
		want := x.Args[0].Name
		for _, t := range e.g.allTypes {
			for _, cand := range []types.Type{t, types.NewPointer(t)} {
				if typeKey(e.g, cand) == want {
					return &Val{T: fmt.Sprintf("(mk-iface %d %s)", e.tagOf(cand), args[1].T), S: "Iface"}, nil
				}
			}
		}
		return nil, fmt.Errorf("unbound:type %s", want)
	}
	if pf, ok := e.g.specs.Preds[name]; ok {
		if len(args) != len(pf.Params) {
			return nil, fmt.Errorf("pred %s takes %d arguments", name, len(pf.Params))
		}
		px, err := parseSpec(pf.Body)
		if err != nil {
			return nil, fmt.Errorf("pred %s: %v", name, err)
		}
		n := *c
		n.vars = map[string]*Val{}
		for k, v := range c.vars {
			n.vars[k] = v
		}
		for i, p := range pf.Params {
			n.vars[p] = args[i]
		}
		// the body must not capture the caller's locals or lets: evaluate with an empty frame view
		nf := *c.fr
		nf.env = map[string]*Val{}
		nf.lets = nil
		nf.debug = nil
		nf.fn = nil
		if nf.specPkg == nil {
			nf.specPkg = c.pkg
		}
		n.fr = &nf
		n.hdr, n.override = nil, nil
		return n.ev(px)
	}
	if sf, ok := e.g.specs.SpecFns[name]; ok {
		if len(args) != len(sf.Params) {
			return nil, fmt.Errorf("spec func %s takes %d arguments", name, len(sf.Params))
		}
		if err := e.declSpecFn(sf); err != nil {
			return nil, err
		}
		var ts []string
		for _, a := range args {
			ts = append(ts, a.T)
		}
		if len(ts) == 0 {
			return &Val{T: "sf_" + name, S: specSort(sf.Ret)}, nil
		}
		return &Val{T: "(sf_" + name + " " + strings.Join(ts, " ") + ")", S: specSort(sf.Ret)}, nil
	}
	return nil, fmt.Errorf("unbound:function %s", name)
}

// declSpecFn emits the definition of a spec function (and, transitively, those it uses).
func (e *Enc) declSpecFn(sf *SpecFunc) error {
	if e.specDone[sf.Name] {
		return nil
	}
	e.specDone[sf.Name] = true
	var ps, names []string
	fr := &Frame{e: e, env: map[string]*Val{}, specVars: map[string]*Val{}}
	for i, p := range sf.Params {
		n := "p_" + p
		ps = append(ps, "("+n+" "+specSort(sf.PSorts[i])+")")
		names = append(names, n)
		fr.specVars[p] = &Val{T: n, S: specSort(sf.PSorts[i])}
	}
	ret := specSort(sf.Ret)
	if sf.Body == "" {
		var ss []string
		for i := range sf.Params {
			ss = append(ss, specSort(sf.PSorts[i]))
		}
		e.declRaw(fmt.Sprintf("(declare-fun sf_%s (%s) %s)", sf.Name, strings.Join(ss, " "), ret))
		return nil
	}
	st := &State{pc: "true", heap: map[string]string{}}
	body, err := fr.evalExprStr(sf.Body, st, st, nil, nil)
	if err != nil {
		return fmt.Errorf("spec func %s: %v", sf.Name, err)
	}
	if sf.Opaque {
		var ss []string
		for i := range sf.Params {
			ss = append(ss, specSort(sf.PSorts[i]))
		}
		e.declRaw(fmt.Sprintf("(declare-fun sf_%s (%s) %s)", sf.Name, strings.Join(ss, " "), ret))
		app := "(sf_" + sf.Name + " " + strings.Join(names, " ") + ")"
		e.declRaw(fmt.Sprintf("(assert (forall (%s) (! (= %s %s) :pattern (%s))))", strings.Join(ps, " "), app, body.T, app))
		return nil
	}
	e.declRaw(fmt.Sprintf("(define-fun sf_%s (%s) %s %s)", sf.Name, strings.Join(ps, " "), ret, body.T))
	return nil
}

// ---------- local variable resolution for loop invariants ----------

type dbgRef struct {
	name   string
	val    ssa.Value
	isAddr bool
	block  *ssa.BasicBlock
	ord    int
}

// localNameOrder: the distinct names of the function's local variables in order of their first appearance in the
// source (renaming a local keeps this order)
func localNameOrder(fn *ssa.Function) []string {
	type ent struct {
		name string
		pos  token.Pos
	}
	first := map[string]token.Pos{}
	for _, b := range fn.Blocks {
		for _, in := range b.Instrs {
			if x, ok := in.(*ssa.DebugRef); ok {
				if id, ok := x.Expr.(*ast.Ident); ok && id.Name != "_" {
					v, isVar := x.Object().(*types.Var)
					if !isVar || v.IsField() || v.Pkg() == nil || v.Parent() == v.Pkg().Scope() {
						continue // only local variables
					}
					if p, seen := first[id.Name]; !seen || id.Pos() < p {
						first[id.Name] = id.Pos()
					}
				}
			}
		}
	}
	params := map[string]bool{}
	for _, p := range fn.Params {
		params[p.Name()] = true
	}
	for _, fv := range fn.FreeVars {
		params[fv.Name()] = true
	}
	var es []ent
	for n, p := range first {
		if !params[n] {
			es = append(es, ent{n, p})
		}
	}
	sort.Slice(es, func(i, j int) bool { return es[i].pos < es[j].pos })
	var out []string
	for _, e := range es {
		out = append(out, e.name)
	}
	return out
}

// renamedLocal: a contract names a local variable that the function no longer has.  If the function's list of
// locals (in order of first appearance) has the same length as on the unchanged tree and the contract's name stood
// at a position where a name now stands that the unchanged tree did not have, the local was renamed: the clause is
// read with the new name.
func (fr *Frame) renamedLocal(name string) string {
	if fr.fn == nil {
		return ""
	}
	base := baselineLocals[fr.key]
	if len(base) == 0 {
		return ""
	}
	cur := localNameOrder(fr.fn)
	if len(cur) != len(base) {
		return ""
	}
	old := map[string]bool{}
	for _, n := range base {
		old[n] = true
	}
	for i, n := range base {
		if n == name && cur[i] != name && !old[cur[i]] {
			return cur[i]
		}
	}
	return ""
}

var baselineLocals = map[string][]string{}

func (fr *Frame) collectDebug() {
	ord := 0
	for _, b := range fr.fn.Blocks {
		for _, in := range b.Instrs {
			ord++
			switch x := in.(type) {
			case *ssa.DebugRef:
				if id, ok := x.Expr.(*ast.Ident); ok {
					if v, isVar := x.Object().(*types.Var); isVar && v.IsField() {
						continue // the selector part of x.f is not a variable of the function
					}
					fr.debug = append(fr.debug, dbgRef{id.Name, x.X, x.IsAddr, b, ord})
				}
			case *ssa.Phi:
				if x.Comment != "" {
					fr.debug = append(fr.debug, dbgRef{x.Comment, x, false, b, ord})
				}
			case *ssa.Alloc:
				// the memory cell of a local variable (captured by a closure or address-taken): the variable's
				// current value is what the cell holds
				if x.Comment != "" && !strings.Contains(x.Comment, " ") && x.Comment != "complit" && x.Comment != "varargs" && x.Comment != "slicelit" && x.Comment != "makeslice" && x.Comment != "new" {
					fr.debug = append(fr.debug, dbgRef{x.Comment, x, true, b, ord})
				}
			}
		}
	}
}

// dominatesReturns: b dominates every block of the function that ends in a return
func (fr *Frame) dominatesReturns(b *ssa.BasicBlock) bool {
	any := false
	for _, x := range fr.fn.Blocks {
		if len(x.Instrs) == 0 {
			continue
		}
		if _, ok := x.Instrs[len(x.Instrs)-1].(*ssa.Return); ok {
			any = true
			if !b.Dominates(x) {
				return false
			}
		}
	}
	return any
}

func domDepth(b *ssa.BasicBlock) int {
	d := 0
	for x := b.Idom(); x != nil; x = x.Idom() {
		d++
	}
	return d
}

func (fr *Frame) lookupLocal(name string, hdr *ssa.BasicBlock, override map[ssa.Value]*Val, cur *State) *Val {
	at := hdr
	if at == nil {
		at = fr.curBlock
	}
	var best *dbgRef
	bestDepth := -1
	// a variable that lives in a memory cell (captured by a closure, address taken) is read through its address:
	// that gives its current value, whereas a value recorded at one assignment is stale after the next one
	hasAddr := false
	for i := range fr.debug {
		if d := &fr.debug[i]; d.name == name && d.isAddr && (at == nil || d.block.Dominates(at)) {
			hasAddr = true
		}
	}
	for i := range fr.debug {
		d := &fr.debug[i]
		if d.name != name {
			continue
		}
		if hasAddr && !d.isAddr {
			continue
		}
		if at != nil && !d.block.Dominates(at) {
			continue
		}
		if at == nil && hdr == nil && fr.atExit && !fr.dominatesReturns(d.block) {
			continue
		}
		// a non-phi definition inside the block `at` itself comes after the header's cut point
		if at != nil && d.block == at {
			if _, isPhi := d.val.(*ssa.Phi); !isPhi && hdr != nil {
				continue
			}
		}
		// outside loop-header context: a definition later in the current block has not happened yet
		if hdr == nil && (at == nil || d.block == at) {
			if _, isConst := d.val.(*ssa.Const); !isConst {
				if _, done := fr.vals[d.val]; !done {
					continue
				}
			}
		}
		dd := domDepth(d.block)
		if dd > bestDepth || (dd == bestDepth && best != nil && d.ord > best.ord) {
			best, bestDepth = d, dd
		}
	}
	if best == nil {
		return nil
	}
	if os.Getenv("GOVC_DEBUG_NAMES") != "" {
		fmt.Fprintf(os.Stderr, "lookup %s at block %v hdr=%v -> %s (block %d)\n", name, at, hdr != nil, best.val.Name(), best.block.Index)
	}
	var v *Val
	if override != nil {
		if o, ok := override[best.val]; ok {
			v = o
		}
	}
	if v == nil {
		v = fr.val(best.val)
	}
	if best.isAddr {
		return fr.loadQuiet(cur, v)
	}
	return v
}

// loadQuiet reads through a pointer without generating obligations (spec context).
func (fr *Frame) loadQuiet(st *State, p *Val) *Val {
	e := fr.e
	loc := fr.ptrLoc(p)
	if loc == nil || loc.Kind == locStruct {
		return p
	}
	if loc.Kind == locGlobal && fr.isImmGlobal(loc) {
		return &Val{T: e.immGlobalVal(loc), S: e.sortOf(loc.GoT), GoT: loc.GoT}
	}
	return &Val{T: e.locRead(st, loc), S: e.sortOf(loc.GoT), GoT: loc.GoT}
}
