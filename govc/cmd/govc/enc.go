package main

// Encoder state shared by all frames of one verified function: declarations, facts (in program
// order), obligations, heap components.

import (
	"fmt"
	"go/token"
	"go/types"
	"regexp"
	"sort"
	"strings"

	"golang.org/x/tools/go/ssa"
)

type Sort = string

type Closure struct {
	Fn   *ssa.Function
	Bind []*Val
}

type Val struct {
	T   string // SMT term
	S   Sort
	GoT types.Type
	Loc *Loc
	Tup []*Val
	Clo *Closure
	Src string // provenance: "pkg.Type.field" or "pkg.global" the value was loaded from
	PatAlt string // for a map lookup used as a trigger: the matching domain lookup (alternative pattern)
}

const (
	locField = iota
	locElem
	locCell
	locGlobal
	locStruct // pointer to a whole struct object (fields live in F_ components keyed by Base)
)

type accessor struct {
	DT  Sort // datatype sort
	Idx int
	N   int
	FS  []Sort
}

type Loc struct {
	Kind int
	Comp string
	CS   Sort // sort of the component's stored value (before Path)
	Base string
	Idx  string
	Path []accessor
	GoT  types.Type // type of the located value (after Path)
	// for guarded_by
	StructKey string
	Field     string
}

type Obl struct {
	Unstable string // thorough tier: status of the reseeded re-run when it was not unsat
	Name   string
	Kind   string
	Func   string
	Label  string
	Props  []string // nil = function-level props
	Goal   string   // full implication: (=> pc goal)
	PC     string
	Raw    string
	NDecl  int
	NFact  int
	Pos    token.Position
	Detail string
	Expect string // "" normal, "refute" for canaries
	// results
	Res     SolveResult
	All     []SolveResult
	File    string
	Vacuous bool
	Model   map[string]string
	Hints   map[string]string // human-readable name -> smt const for model rendering
}

type G struct {
	prog     *ssa.Program
	fset     *token.FileSet
	specs    *Specs
	tags     map[string]int
	tagTypes []types.Type
	strs     map[string]int
	fnByKey  map[string]*ssa.Function
	repoPkgs map[string]*ssa.Package // by short name
	modPath  string
	srcCache map[string][]string
	allTypes []types.Type // named types (and pointers) in repo packages, for closed-world dispatch
	extTypes []types.Type
	errCount int
	errIDs   map[string]int
	globIDs  map[string]int
}

type Enc struct {
	g         *G
	decls     []string
	declared  map[string]bool
	facts     []string
	obls      []*Obl
	ctr       int
	comps     map[string]Sort
	dry       int
	top       *ssa.Function
	topKey    string
	usedSpecs map[string]bool
	trusted   map[string]bool
	abstr     map[string]bool
	inlined   map[string]bool
	oblNames  map[string]int
	dtDone    map[string]bool
	specDone  map[string]bool
	lambda    bool
	hints     map[string]string
	bounded   []string
	content   bool
	owner     bool
	localRefs map[string]bool // objects allocated by the function under verification (not yet shared)
	repCompsMap map[string]string
	ioCount   string // number of calls of io_effect functions so far on the current path (SMT term)
	cellVal   map[string]string // value last stored into a local cell (by cell reference), shared by all frames
	fpFuns    []string
	retained  []retainedStore
	compTypes map[string]types.Type
	compKind  map[string]string // field | elem | mapval
}

func newEnc(g *G, top *ssa.Function) *Enc {
	e := &Enc{g: g, declared: map[string]bool{}, comps: map[string]Sort{}, top: top, usedSpecs: map[string]bool{},
		trusted: map[string]bool{}, abstr: map[string]bool{}, inlined: map[string]bool{}, oblNames: map[string]int{},
		dtDone: map[string]bool{}, specDone: map[string]bool{}, hints: map[string]string{}, localRefs: map[string]bool{}, compTypes: map[string]types.Type{}, compKind: map[string]string{}}
	if top != nil {
		e.topKey = fnKey(g, top)
	}
	return e
}

var reSan = regexp.MustCompile(`[^A-Za-z0-9_]`)

func san(s string) string { return reSan.ReplaceAllString(s, "_") }

func (e *Enc) declRaw(s string) {
	e.decls = append(e.decls, s)
}

func (e *Enc) declare(name string, sort Sort) {
	if e.declared[name] {
		return
	}
	e.declared[name] = true
	e.decls = append(e.decls, fmt.Sprintf("(declare-const %s %s)", name, sort))
}

func (e *Enc) fresh(hint string, sort Sort) string {
	e.ctr++
	n := fmt.Sprintf("%s!%d", san(hint), e.ctr)
	e.declare(n, sort)
	return n
}

// facts are appended to decls too so that order of declaration/assertion is preserved in one list
func (e *Enc) fact(f string) {
	if f == "true" {
		return
	}
	e.decls = append(e.decls, "(assert "+f+")")
}

func (e *Enc) define(hint string, sort Sort, term string) string {
	n := e.fresh(hint, sort)
	e.fact(sEq(n, term))
	return n
}

func (e *Enc) assume(pc, f string) {
	if f == "true" {
		return
	}
	e.fact(sImp(pc, f))
}

func sexprEnd(s string, i int) int {
	// index just past the s-expression starting at s[i]
	if s[i] != '(' {
		j := i
		for j < len(s) && s[j] != ' ' && s[j] != ')' {
			j++
		}
		return j
	}
	d := 0
	for j := i; j < len(s); j++ {
		if s[j] == '(' {
			d++
		} else if s[j] == ')' {
			d--
			if d == 0 {
				return j + 1
			}
		}
	}
	return len(s)
}

func topConjuncts(t string) []string {
	t = strings.TrimSpace(t)
	if strings.HasPrefix(t, "(forall ") {
		// (forall (binders) (! (=> A B) :pattern (...)))  ->  one forall per conjunct of B
		b0 := 8
		b1 := sexprEnd(t, b0)
		rest := strings.TrimSpace(t[b1 : len(t)-1])
		if strings.HasPrefix(rest, "(! (=> ") {
			a0 := 7
			a1 := sexprEnd(rest, a0)
			c0 := a1 + 1
			c1 := sexprEnd(rest, c0)
			tail := rest[c1:]
			var out []string
			for _, c := range topConjuncts(rest[c0:c1]) {
				out = append(out, t[:b1]+" (! (=> "+rest[a0:a1]+" "+c+tail+")")
			}
			if len(out) > 1 {
				return out
			}
		}
		return []string{t}
	}
	if !strings.HasPrefix(t, "(and ") {
		return []string{t}
	}
	inner := t[5 : len(t)-1]
	var out []string
	depth, start := 0, 0
	for i := 0; i < len(inner); i++ {
		switch inner[i] {
		case '(':
			depth++
		case ')':
			depth--
		case ' ':
			if depth == 0 {
				if strings.TrimSpace(inner[start:i]) != "" {
					out = append(out, topConjuncts(inner[start:i])...)
				}
				start = i + 1
			}
		}
	}
	if strings.TrimSpace(inner[start:]) != "" {
		out = append(out, topConjuncts(inner[start:])...)
	}
	return out
}

var splitMode = false

// splitGoal: the top-level conjuncts of a goal (also below one implication and one quantifier);
// proving each of them proves the goal.
func splitGoal(goal string) (goals, descs []string) {
	pre, body := "", goal
	if strings.HasPrefix(goal, "(=> ") {
		// (=> A B): split B
		d, i := 0, 4
		for ; i < len(goal); i++ {
			if goal[i] == '(' {
				d++
			} else if goal[i] == ')' {
				d--
			}
			if d == 0 && goal[i] == ' ' && i > 4 {
				break
			}
			if d == 0 && goal[4] != '(' && goal[i] == ' ' {
				break
			}
		}
		if i < len(goal) {
			pre, body = goal[4:i], goal[i+1:len(goal)-1]
		}
	}
	cs := topConjuncts(body)
	if len(cs) <= 1 {
		return []string{goal}, []string{goal}
	}
	for _, c := range cs {
		g := c
		if pre != "" {
			g = "(=> " + pre + " " + c + ")"
		}
		goals = append(goals, g)
		descs = append(descs, c)
	}
	return
}

func (e *Enc) oblige(kind, label string, pc, goal string, props []string, pos token.Pos, detail string) *Obl {
	if e.dry > 0 {
		return nil
	}
	if splitMode && kind != "vacuity" {
		// debugging aid: one obligation per top-level conjunct (also below one implication)
		cs, ds := splitGoal(goal)
		if len(cs) > 1 {
			var last *Obl
			for k, g := range cs {
				sm := splitMode
				splitMode = false
				last = e.oblige(kind, fmt.Sprintf("%s/c%d", label, k+1), pc, g, props, pos, ds[k])
				splitMode = sm
			}
			return last
		}
	}
	base := fmt.Sprintf("%s/%s[%s]", e.topKey, kind, label)
	e.oblNames[base]++
	name := base
	if k := e.oblNames[base]; k > 1 {
		name = fmt.Sprintf("%s#%d", base, k)
	}
	o := &Obl{Name: name, Kind: kind, Func: e.topKey, Label: label, Props: props, PC: pc, Raw: goal,
		Goal: sImp(pc, goal), NDecl: len(e.decls), Detail: detail}
	if pos.IsValid() {
		o.Pos = e.g.fset.Position(pos)
	}
	e.obls = append(e.obls, o)
	// after the check, the fact may be assumed by what follows (first failure semantics);
	// reachability probes are never assumed
	if kind != "vacuity" {
		e.assume(pc, goal)
	}
	return o
}

// ---- sorts ----

func typeKey(g *G, t types.Type) string {
	switch t := t.(type) {
	case *types.Named:
		o := t.Obj()
		if o.Pkg() == nil {
			return o.Name()
		}
		return o.Pkg().Name() + "." + o.Name()
	case *types.Alias:
		return typeKey(g, types.Unalias(t))
	case *types.Pointer:
		return "*" + typeKey(g, t.Elem())
	case *types.Slice:
		return "[]" + typeKey(g, t.Elem())
	case *types.Array:
		return fmt.Sprintf("[%d]%s", t.Len(), typeKey(g, t.Elem()))
	case *types.Map:
		return "map[" + typeKey(g, t.Key()) + "]" + typeKey(g, t.Elem())
	case *types.Basic:
		return t.Name()
	case *types.Interface:
		if t.Empty() {
			return "any"
		}
		return "iface"
	case *types.Struct:
		return "struct"
	case *types.Signature:
		return "func"
	case *types.Chan:
		return "chan"
	case *types.Tuple:
		return "tuple"
	}
	return san(t.String())
}

func isRepoType(g *G, t types.Type) bool {
	if n, ok := types.Unalias(t).(*types.Named); ok && n.Obj().Pkg() != nil {
		return strings.HasPrefix(n.Obj().Pkg().Path(), g.modPath)
	}
	return false
}

// sortOf maps a Go type to an SMT sort, declaring datatypes on demand.
func (e *Enc) sortOf(t types.Type) Sort {
	t = types.Unalias(t)
	switch u := t.Underlying().(type) {
	case *types.Basic:
		switch {
		case u.Info()&types.IsBoolean != 0:
			return "Bool"
		case u.Info()&types.IsInteger != 0:
			return "Int"
		case u.Info()&types.IsFloat != 0:
			return "Int" // uninterpreted (havocked)
		case u.Info()&types.IsString != 0:
			return "Int" // string id
		case u.Kind() == types.UnsafePointer:
			return "Int"
		case u.Kind() == types.UntypedNil:
			return "Int"
		}
		return "Int"
	case *types.Pointer, *types.Map, *types.Chan, *types.Signature:
		return "Int"
	case *types.Slice:
		return "Slice"
	case *types.Interface:
		return "Iface"
	case *types.Array:
		return "Int" // arrays by value are not modelled; pointer-to-array is an array ref
	case *types.Struct:
		return e.structSort(t, u)
	case *types.Tuple:
		return "Tuple"
	}
	return "Int"
}

func (e *Enc) structSort(t types.Type, u *types.Struct) Sort {
	key := "S_" + san(typeKey(e.g, t))
	if _, named := t.(*types.Named); !named {
		key = "S_anon_" + san(u.String())
		if len(key) > 60 {
			key = key[:60]
		}
	}
	if e.dtDone[key] {
		return key
	}
	e.dtDone[key] = true
	if !isRepoType(e.g, t) || u.NumFields() == 0 {
		e.declRaw(fmt.Sprintf("(declare-sort %s 0)", key))
		e.declRaw(fmt.Sprintf("(declare-const zero_%s %s)", key, key))
		return key
	}
	var fs []string
	for i := 0; i < u.NumFields(); i++ {
		fs = append(fs, fmt.Sprintf("(%s_%d %s)", key, i, e.sortOf(u.Field(i).Type())))
	}
	e.declRaw(fmt.Sprintf("(declare-datatypes ((%s 0)) (((mk_%s %s))))", key, key, strings.Join(fs, " ")))
	return key
}

func (e *Enc) isOpaqueStruct(t types.Type) bool {
	u, ok := t.Underlying().(*types.Struct)
	if !ok {
		return false
	}
	return !isRepoType(e.g, t) || u.NumFields() == 0
}

func (e *Enc) zero(t types.Type) string {
	s := e.sortOf(t)
	switch s {
	case "Int":
		return "0"
	case "Bool":
		return "false"
	case "Slice":
		return "nilslice"
	case "Iface":
		return "niliface"
	}
	if u, ok := t.Underlying().(*types.Struct); ok {
		if e.isOpaqueStruct(t) {
			return "zero_" + s
		}
		var zs []string
		for i := 0; i < u.NumFields(); i++ {
			zs = append(zs, e.zero(u.Field(i).Type()))
		}
		return "(mk_" + s + " " + strings.Join(zs, " ") + ")"
	}
	return "0"
}

func intRange(t types.Type) (lo, hi string, ok bool) {
	b, isb := t.Underlying().(*types.Basic)
	if !isb || b.Info()&types.IsInteger == 0 {
		return "", "", false
	}
	switch b.Kind() {
	case types.Int8:
		return "(- 128)", "127", true
	case types.Int16:
		return "(- 32768)", "32767", true
	case types.Int32:
		return "(- 2147483648)", "2147483647", true
	case types.Int, types.Int64:
		return "(- 9223372036854775808)", "9223372036854775807", true
	case types.Uint8:
		return "0", "255", true
	case types.Uint16:
		return "0", "65535", true
	case types.Uint32:
		return "0", "4294967295", true
	case types.Uint, types.Uint64, types.Uintptr:
		return "0", "18446744073709551615", true
	}
	return "", "", false
}

func intBits(t types.Type) (bits int, signed bool, ok bool) {
	b, isb := t.Underlying().(*types.Basic)
	if !isb || b.Info()&types.IsInteger == 0 {
		return 0, false, false
	}
	switch b.Kind() {
	case types.Int8:
		return 8, true, true
	case types.Int16:
		return 16, true, true
	case types.Int32:
		return 32, true, true
	case types.Int, types.Int64:
		return 64, true, true
	case types.Uint8:
		return 8, false, true
	case types.Uint16:
		return 16, false, true
	case types.Uint32:
		return 32, false, true
	case types.Uint, types.Uint64, types.Uintptr:
		return 64, false, true
	case types.UntypedInt, types.UntypedRune:
		return 64, true, true
	}
	return 0, false, false
}

func pow2(n int) string {
	switch n {
	case 7:
		return "128"
	case 8:
		return "256"
	case 15:
		return "32768"
	case 16:
		return "65536"
	case 31:
		return "2147483648"
	case 32:
		return "4294967296"
	case 63:
		return "9223372036854775808"
	case 64:
		return "18446744073709551616"
	}
	// generic
	v := new(bigInt).setPow2(n)
	return v.String()
}

func wrapInt(term string, t types.Type) string {
	bits, signed, ok := intBits(t)
	if !ok {
		return term
	}
	if !signed {
		return "(mod " + term + " " + pow2(bits) + ")"
	}
	return "(- (mod (+ " + term + " " + pow2(bits-1) + ") " + pow2(bits) + ") " + pow2(bits-1) + ")"
}

// wf: type invariant of a value (ranges, allocatedness)
func (e *Enc) wf(t types.Type, term string, next string) string {
	t = types.Unalias(t)
	switch u := t.Underlying().(type) {
	case *types.Basic:
		if lo, hi, ok := intRange(t); ok {
			return "(and (<= " + lo + " " + term + ") (<= " + term + " " + hi + "))"
		}
		if u.Info()&types.IsString != 0 {
			return "(<= 0 (strlen " + term + "))"
		}
		return "true"
	case *types.Pointer, *types.Map:
		return "(and (<= 0 " + term + ") (< " + term + " " + next + "))"
	case *types.Slice:
		return "(and (<= 0 (s-off " + term + ")) (<= 0 (s-len " + term + ")) (<= (s-len " + term + ") (s-cap " + term + ")) (<= (s-cap " + term + ") 17592186044416)" +
			" (<= 0 (s-arr " + term + ")) (< (s-arr " + term + ") " + next + ") (=> (= (s-arr " + term + ") 0) (= (s-cap " + term + ") 0)))"
	case *types.Interface:
		return "(and (<= 0 (i-val " + term + ")) (< (i-val " + term + ") " + next + ") (<= 0 (i-tag " + term + ")) (=> (= (i-tag " + term + ") 0) (= (i-val " + term + ") 0)))"
	case *types.Struct:
		if e.isOpaqueStruct(t) {
			return "true"
		}
		s := e.sortOf(t)
		var cs []string
		for i := 0; i < u.NumFields(); i++ {
			cs = append(cs, e.wf(u.Field(i).Type(), fmt.Sprintf("(%s_%d %s)", s, i, term), next))
		}
		return sAnd(cs...)
	}
	return "true"
}

// ---- heap state ----

type State struct {
	pc   string
	heap map[string]string
}

func (s *State) clone() *State {
	h := make(map[string]string, len(s.heap))
	for k, v := range s.heap {
		h[k] = v
	}
	return &State{pc: s.pc, heap: h}
}

func (e *Enc) comp(name string, sort Sort) {
	if _, ok := e.comps[name]; !ok {
		e.comps[name] = sort
		e.declare(name+"!0", sort)
		if name == "$next" {
			e.fact("(>= $next!0 1)")
		}
		// the heap at function entry is well-typed: every value stored in an allocated object is in
		// range and refers to objects allocated before entry
		if t, ok := e.compTypes[name]; ok && name != "$next" {
			if _, isNext := e.comps["$next"]; !isNext {
				e.comp("$next", "Int")
			}
			switch e.compKind[name] {
			case "field":
				w := e.wf(t, "(select "+name+"!0 wr)", "$next!0")
				if w != "true" {
					e.fact("(forall ((wr Int)) (! (=> (and (< 0 wr) (< wr $next!0)) " + w + ") :pattern ((select " + name + "!0 wr))))")
				}
			case "elem":
				w := e.wf(t, "(select (select "+name+"!0 wr) wi)", "$next!0")
				if w != "true" {
					e.fact("(forall ((wr Int) (wi Int)) (! (=> (and (< 0 wr) (< wr $next!0)) " + w + ") :pattern ((select (select " + name + "!0 wr) wi))))")
				}
			}
		}
	}
}

func (e *Enc) get(st *State, name string, sort Sort) string {
	e.comp(name, sort)
	if v, ok := st.heap[name]; ok {
		return v
	}
	return name + "!0"
}

func (e *Enc) set(st *State, name string, sort Sort, term string) {
	e.comp(name, sort)
	n := e.fresh(name, sort)
	e.fact(sEq(n, term))
	st.heap[name] = n
}

func (e *Enc) havocComp(st *State, name string, sort Sort) string {
	e.comp(name, sort)
	n := e.fresh(name, sort)
	st.heap[name] = n
	return n
}

func (e *Enc) next(st *State) string { return e.get(st, "$next", "Int") }

func (e *Enc) allocRef(st *State, hint string) string {
	nx := e.next(st)
	r := e.define(hint, "Int", nx)
	e.set(st, "$next", "Int", "(+ "+nx+" 1)")
	return r
}

func arrSort(es Sort) Sort { return "(Array Int (Array Int " + es + "))" }

func (e *Enc) elemComp(elem types.Type) (string, Sort) {
	es := e.sortOf(elem)
	k := typeKey(e.g, elem)
	// pointers to different struct types all live in their own arrays; bytes/uint8 share
	if b, ok := elem.Underlying().(*types.Basic); ok {
		k = b.Name()
		if b.Kind() == types.Uint8 {
			k = "byte"
		}
	}
	e.compTypes["A_"+san(k)] = elem
	e.compKind["A_"+san(k)] = "elem"
	return "A_" + san(k), es
}

func (e *Enc) fieldComp(st types.Type, idx int) (string, Sort, types.Type) {
	u := st.Underlying().(*types.Struct)
	f := u.Field(idx)
	n := "F_" + san(typeKey(e.g, st)) + "_" + f.Name()
	e.compTypes[n] = f.Type()
	e.compKind[n] = "field"
	return n, e.sortOf(f.Type()), f.Type()
}

func (e *Enc) mapComps(m *types.Map) (dom, val, cnt string, ks, vs Sort) {
	ks, vs = e.sortOf(m.Key()), e.sortOf(m.Elem())
	k := san(typeKey(e.g, m.Key()) + "_" + typeKey(e.g, m.Elem()))
	if ks == "Int" {
		e.compTypes["Mv_"+k] = m.Elem()
		e.compKind["Mv_"+k] = "elem"
	}
	return "Md_" + k, "Mv_" + k, "Mn_" + k, ks, vs
}

// mergeStates joins states with mutually exclusive path conditions.
func (e *Enc) mergeStates(hint string, ins []*State) *State {
	if len(ins) == 0 {
		return nil
	}
	if len(ins) == 1 {
		c := ins[0].clone()
		return c
	}
	var pcs []string
	for _, s := range ins {
		pcs = append(pcs, s.pc)
	}
	out := &State{heap: map[string]string{}}
	out.pc = e.define("pc_"+hint, "Bool", sOr(pcs...))
	names := map[string]bool{}
	for _, s := range ins {
		for k := range s.heap {
			names[k] = true
		}
	}
	var keys []string
	for k := range names {
		keys = append(keys, k)
	}
	sort.Strings(keys)
	for _, k := range keys {
		srt := e.comps[k]
		first := e.get(ins[0], k, srt)
		same := true
		for _, s := range ins[1:] {
			if e.get(s, k, srt) != first {
				same = false
			}
		}
		if same {
			out.heap[k] = first
			continue
		}
		term := e.get(ins[len(ins)-1], k, srt)
		for i := len(ins) - 2; i >= 0; i-- {
			term = sIte(ins[i].pc, e.get(ins[i], k, srt), term)
		}
		n := e.fresh(k, srt)
		e.fact(sEq(n, term))
		if strings.HasPrefix(srt, "(Array Int ") {
			// pointwise reading of a merged component, so that quantified facts about the incoming
			// versions are found by E-matching on reads of the merged one
			pt := sSel(e.get(ins[len(ins)-1], k, srt), "mi")
			for i := len(ins) - 2; i >= 0; i-- {
				pt = sIte(ins[i].pc, sSel(e.get(ins[i], k, srt), "mi"), pt)
			}
			e.fact("(forall ((mi Int)) (! (= (select " + n + " mi) " + pt + ") :pattern ((select " + n + " mi))))")
		}
		out.heap[k] = n
	}
	return out
}

// ---- tiny bigint for pow2 ----
type bigInt struct{ d []int } // decimal digits little endian

func (b *bigInt) setPow2(n int) *bigInt {
	b.d = []int{1}
	for i := 0; i < n; i++ {
		c := 0
		for j := range b.d {
			v := b.d[j]*2 + c
			b.d[j] = v % 10
			c = v / 10
		}
		if c > 0 {
			b.d = append(b.d, c)
		}
	}
	return b
}
func (b *bigInt) String() string {
	var sb strings.Builder
	for i := len(b.d) - 1; i >= 0; i-- {
		sb.WriteByte(byte('0' + b.d[i]))
	}
	return sb.String()
}

func fnKey(g *G, fn *ssa.Function) string {
	s := fn.String()
	return shortenKey(g, s)
}

var rePath = regexp.MustCompile(`[A-Za-z0-9_.\-]+(/[A-Za-z0-9_.\-]+)*/`)

func shortenKey(g *G, s string) string {
	// root package: github.com/XiXi-2024/xixi-kv.X -> xixi_kv.X ; subpackages: strip module path
	s = strings.ReplaceAll(s, g.modPath+"/", "")
	s = strings.ReplaceAll(s, g.modPath+".", "xixi_kv.")
	// other import paths: keep only the last path element
	s = rePath.ReplaceAllString(s, "")
	return s
}
