package main

import (
	"context"
	"encoding/json"
	"flag"
	"fmt"
	"go/ast"
	"go/token"
	"go/types"
	"os"
	"path/filepath"
	"regexp"
	"runtime/debug"
	"sort"
	"strings"
	"sync"
	"time"

	"golang.org/x/tools/go/packages"
	"golang.org/x/tools/go/ssa"
	"golang.org/x/tools/go/ssa/ssautil"
)

var (
	flagRepo    = flag.String("repo", "/repo", "repository root")
	flagVerif   = flag.String("verif", "/verif", "verif root")
	flagProp    = flag.String("prop", "", "property id (C01..C20); empty = all functions under contract")
	flagTier    = flag.String("tier", "quick", "quick | thorough")
	flagFunc    = flag.String("func", "", "only verify functions whose key contains this substring")
	flagKeep    = flag.Bool("keep", false, "keep SMT files")
	flagVerbose = flag.Bool("v", false, "verbose")
	flagDump    = flag.String("dump", "", "dump the SMT of obligations whose name contains this substring to stdout")
	flagNoEvid  = flag.Bool("no-evidence", false, "do not write the evidence file")
	flagBudget  = flag.Int("budget", 0, "solver budget in seconds (0 = tier default)")
	flagSplit   = flag.Bool("split", false, "debug: split conjunctive goals into one obligation per conjunct")
	flagBase    = flag.Bool("write-baseline", false, "record the status of every obligation of -prop into baseline_obligations.json (maintainer only; never used by checks)")
	flagReplay  = flag.String("replay", "", "print a replay file and re-run its concrete replay test, if it has one")
)

var bindErrs []string
var bindMu sync.Mutex

func (g *G) reportBindErr(fn string, c *Clause, err error) {
	bindMu.Lock()
	defer bindMu.Unlock()
	msg := fmt.Sprintf("%s: %s [%s]: %v", fn, c.Kind, c.Label, err)
	for _, m := range bindErrs {
		if m == msg {
			return
		}
	}
	bindErrs = append(bindErrs, msg)
}

var astFiles = map[string]*ast.File{}
var pkgSyntax = map[*types.Package][]*ast.File{}

func (g *G) fileOf(name string) *ast.File { return astFiles[name] }

func fnSyntaxFiles(g *G, fn *ssa.Function) []*ast.File {
	if fn.Pkg == nil {
		return nil
	}
	return pkgSyntax[fn.Pkg.Pkg]
}

var srcMu sync.Mutex
var srcText = map[string]string{}

func (g *G) source(name string) string {
	srcMu.Lock()
	defer srcMu.Unlock()
	if s, ok := srcText[name]; ok {
		return s
	}
	b, _ := os.ReadFile(name)
	srcText[name] = string(b)
	return string(b)
}

func loadProgram(repo string) (*G, error) {
	cfg := &packages.Config{Mode: packages.LoadAllSyntax, Dir: repo, BuildFlags: []string{"-tags=verif"},
		Env: append(os.Environ(), "GOFLAGS=-mod=mod", "GOPROXY=off", "GOSUMDB=off", "GOTOOLCHAIN=local")}
	pkgs, err := packages.Load(cfg, ".", "./datafile", "./fio", "./index", "./utils", "./datatype")
	if err != nil {
		return nil, err
	}
	nerr := 0
	packages.Visit(pkgs, nil, func(p *packages.Package) {
		for _, e := range p.Errors {
			if nerr < 10 {
				fmt.Fprintln(os.Stderr, "load error:", e)
			}
			nerr++
		}
	})
	if nerr > 0 {
		return nil, fmt.Errorf("%d package load errors (the working tree does not compile with -tags verif)", nerr)
	}
	prog, _ := ssautil.AllPackages(pkgs, ssa.GlobalDebug|ssa.InstantiateGenerics)
	prog.Build()
	g := &G{prog: prog, fset: prog.Fset, specs: NewSpecs(), tags: map[string]int{}, strs: map[string]int{}, fnByKey: map[string]*ssa.Function{},
		repoPkgs: map[string]*ssa.Package{}, errIDs: map[string]int{}, globIDs: map[string]int{}}
	g.modPath = "github.com/XiXi-2024/xixi-kv"
	packages.Visit(pkgs, nil, func(p *packages.Package) {
		if p.Types != nil {
			pkgSyntax[p.Types] = p.Syntax
		}
		for _, f := range p.Syntax {
			astFiles[prog.Fset.Position(f.Pos()).Filename] = f
		}
	})
	for _, p := range prog.AllPackages() {
		if strings.HasPrefix(p.Pkg.Path(), g.modPath) {
			g.repoPkgs[p.Pkg.Name()] = p
		}
		// named types of all packages are candidates for typeByKey; only repo types are used for dispatch
		for _, m := range p.Members {
			if t, ok := m.(*ssa.Type); ok {
				if strings.HasPrefix(p.Pkg.Path(), g.modPath) {
					g.allTypes = append(g.allTypes, t.Type())
				} else {
					g.extTypes = append(g.extTypes, t.Type())
				}
			}
		}
	}
	sort.Slice(g.allTypes, func(i, j int) bool { return g.allTypes[i].String() < g.allTypes[j].String() })
	sort.Slice(g.extTypes, func(i, j int) bool { return g.extTypes[i].String() < g.extTypes[j].String() })
	g.allTypes = append(g.allTypes, g.extTypes...)
	for fn := range ssautil.AllFunctions(prog) {
		k := fnKey(g, fn)
		if old, ok := g.fnByKey[k]; ok {
			// prefer functions with bodies, then deterministic choice
			if old.Blocks != nil && fn.Blocks == nil {
				continue
			}
			if old.Blocks != nil && fn.Blocks != nil && old.String() <= fn.String() {
				continue
			}
		}
		g.fnByKey[k] = fn
	}
	return g, nil
}

func loadSpecs(g *G, repo, verif string) error {
	var files []string
	for _, pat := range []string{filepath.Join(repo, "zz_contracts*_verif.go"), filepath.Join(repo, "*", "zz_contracts*_verif.go"), filepath.Join(verif, "trusted", "*.spec")} {
		m, _ := filepath.Glob(pat)
		sort.Strings(m)
		files = append(files, m...)
	}
	for _, f := range files {
		if err := g.specs.LoadSpecFile(f); err != nil {
			return err
		}
	}
	return nil
}

type KnownFinding struct {
	Kind       string // finding | fixed
	Property   string
	Obligation string
	Text       string
}

func loadKnown(verif string) []KnownFinding {
	var out []KnownFinding
	b, err := os.ReadFile(filepath.Join(verif, "known_findings.txt"))
	if err != nil {
		return nil
	}
	for _, l := range strings.Split(string(b), "\n") {
		l = strings.TrimSpace(l)
		if l == "" || strings.HasPrefix(l, "#") {
			continue
		}
		var k KnownFinding
		switch {
		case strings.HasPrefix(l, "finding:"):
			k.Kind = "finding"
			l = strings.TrimSpace(l[8:])
		case strings.HasPrefix(l, "fixed:"):
			k.Kind = "fixed"
			l = strings.TrimSpace(l[6:])
		default:
			continue
		}
		for _, f := range strings.SplitN(l, " ", 3) {
			if strings.HasPrefix(f, "property=") {
				k.Property = f[9:]
			}
		}
		if i := strings.Index(l, "obligation="); i >= 0 {
			rest := l[i+11:]
			// obligation names may contain spaces inside [...]; they end at "] " followed by text or "#n "
			end := strings.Index(rest, "] ")
			if end < 0 {
				k.Obligation = strings.TrimSpace(rest)
			} else {
				name := rest[:end+1]
				tail := rest[end+1:]
				if strings.HasPrefix(tail, "#") {
					sp := strings.Index(tail, " ")
					if sp < 0 {
						sp = len(tail)
					}
					name += tail[:sp]
					tail = tail[sp:]
				}
				k.Obligation = name
				k.Text = strings.TrimSpace(tail)
			}
		} else {
			k.Text = l
		}
		out = append(out, k)
	}
	return out
}

func hasProp(ps []string, p string) bool {
	for _, x := range ps {
		if x == p {
			return true
		}
	}
	return false
}

var rePC = regexp.MustCompile(`pc_[A-Za-z0-9_.$]*![0-9]+`)
var reSym = regexp.MustCompile(`[A-Za-z_$][A-Za-z0-9_.$]*![0-9]+`)

// declInfo: per declaration, the path-condition symbols guarding it (for relevance pruning)
type declInfo struct {
	guards []string // pc symbols in the guard of "(assert (=> guard ...))"
	defines string  // pc symbol defined by "(assert (= pc ...))"
	parents []string
}

var declCache sync.Map // *Enc -> []declInfo (prefix-extended lazily)
var declMu sync.Mutex

func declInfos(e *Enc, n int) []declInfo {
	declMu.Lock()
	defer declMu.Unlock()
	var cur []declInfo
	if v, ok := declCache.Load(e); ok {
		cur = v.([]declInfo)
	}
	for i := len(cur); i < n; i++ {
		d := e.decls[i]
		var di declInfo
		if strings.HasPrefix(d, "(assert (= ") && len(d) > 12 && d[11] != '(' {
			j := strings.IndexByte(d[11:], ' ')
			if j > 0 {
				name := d[11 : 11+j]
				if reSym.FindString(name) == name {
					di.defines = name
					di.parents = reSym.FindAllString(d[11+j:], -1)
				}
			}
		} else if strings.HasPrefix(d, "(assert (=> ") {
			g0 := 12
			g1 := sexprEnd(d, g0)
			guard := d[g0:g1]
			if strings.HasPrefix(guard, "pc_") || strings.HasPrefix(guard, "(and ") {
				if !strings.Contains(guard, "(or ") && !strings.Contains(guard, "(not ") && !strings.Contains(guard, "(=> ") && !strings.Contains(guard, "(ite ") {
					di.guards = rePC.FindAllString(guard, -1)
				} else if strings.HasPrefix(guard, "(and pc_") {
					// first conjunct is a bare pc symbol
					k := strings.IndexAny(guard[5:], " )")
					if k > 0 {
						di.guards = []string{guard[5 : 5+k]}
					}
				}
			}
		}
		cur = append(cur, di)
	}
	declCache.Store(e, cur)
	return cur
}

var noPrune = os.Getenv("GOVC_NOPRUNE") != ""

func buildSMT(e *Enc, o *Obl) string {
	var sb strings.Builder
	sb.WriteString(preamble)
	// relevance pruning: a fact guarded by a path condition that is not an ancestor of the
	// obligation's own path condition lies on a different path (every block is executed once, with
	// merged states, so two path conditions neither of which derives from the other are mutually
	// exclusive); dropping hypotheses is always sound.
	var rel map[string]bool
	var infos []declInfo
	if o.Expect != "sat" && !noPrune {
		infos = declInfos(e, o.NDecl)
		rel = map[string]bool{}
		work := reSym.FindAllString(o.PC+" "+o.Raw, -1)
		def := map[string][]string{}
		for _, di := range infos {
			if di.defines != "" {
				def[di.defines] = di.parents
			}
		}
		for len(work) > 0 {
			x := work[len(work)-1]
			work = work[:len(work)-1]
			if rel[x] {
				continue
			}
			rel[x] = true
			work = append(work, def[x]...)
		}
	}
	for i, d := range e.decls[:o.NDecl] {
		if rel != nil {
			di := infos[i]
			skip := false
			for _, g := range di.guards {
				if !rel[g] {
					skip = true
					break
				}
			}
			if di.defines != "" && strings.HasPrefix(di.defines, "pc_") && !rel[di.defines] {
				skip = true
			}
			if skip {
				continue
			}
		}
		sb.WriteString(d)
		sb.WriteByte('\n')
	}
	if o.Expect == "sat" {
		sb.WriteString("(assert " + o.Raw + ")\n")
	} else {
		sb.WriteString("(assert (not " + o.Goal + "))\n")
	}
	sb.WriteString("(check-sat)\n(get-model)\n")
	return sb.String()
}

type Evidence struct {
	PropertyID  string                 `json:"property_id"`
	Tier        string                 `json:"tier"`
	Seed        int                    `json:"seed"`
	Level       string                 `json:"level"`
	Coverage    map[string]interface{} `json:"coverage"`
	Assumptions []string               `json:"assumptions"`
	WallS       float64                `json:"wall_s"`
	Violations  int                    `json:"violations"`
}

func main() {
	flag.Parse()
	splitMode = *flagSplit
	if *flagReplay != "" {
		os.Exit(rerunReplay(*flagReplay))
	}
	t0 := time.Now()
	os.Exit(run(t0))
}

func run(t0 time.Time) int {
	prop := *flagProp
	g, err := loadProgram(*flagRepo)
	if err != nil {
		fmt.Println("UNDECIDED property=" + prop + " reason=load: " + err.Error())
		return 2
	}
	loadBaselineLocals(*flagVerif)
	if err := loadSpecs(g, *flagRepo, *flagVerif); err != nil {
		fmt.Println("UNDECIDED property=" + prop + " reason=spec: " + err.Error())
		return 2
	}
	tLoad := time.Since(t0).Seconds()
	// select functions
	var keys []string
	for k, s := range g.specs.Funcs {
		if s.Trusted || s.IsIface {
			continue
		}
		if prop != "" && !hasProp(s.Props, prop) {
			// a function may still carry clause-level tags for this property
			tagged := false
			for _, c := range append(append([]*Clause{}, s.Ensures...), s.Requires...) {
				if hasProp(c.Props, prop) {
					tagged = true
				}
			}
			if !tagged {
				continue
			}
		}
		if *flagFunc != "" && !strings.Contains(k, *flagFunc) {
			continue
		}
		keys = append(keys, k)
	}
	sort.Strings(keys)
	var undecided []string
	var results []*FuncResult
	var rmu sync.Mutex
	var wg sync.WaitGroup
	sem := make(chan struct{}, 1)
	for _, k := range keys {
		fn := g.fnByKey[k]
		spec := g.specs.Funcs[k]
		if fn == nil {
			if isRepoKey(k) {
				undecided = append(undecided, "unbound:"+k)
			}
			continue
		}
		if fn.Blocks == nil || !(&Enc{g: g}).isRepoFn(fn) {
			continue // external: contract is trusted
		}
		wg.Add(1)
		func(fn *ssa.Function, spec *FuncSpec) {
			defer wg.Done()
			sem <- struct{}{}
			defer func() { <-sem }()
			defer func() {
				if r := recover(); r != nil {
					rmu.Lock()
					undecided = append(undecided, fmt.Sprintf("engine-panic:%s:%v", spec.Key, r))
					if *flagVerbose {
						fmt.Fprintln(os.Stderr, string(debug.Stack()))
					}
					rmu.Unlock()
				}
			}()
			r := verifyFunction(g, fn, spec)
			rmu.Lock()
			results = append(results, r)
			rmu.Unlock()
		}(fn, spec)
	}
	wg.Wait()
	sort.Slice(results, func(i, j int) bool { return results[i].Key < results[j].Key })
	// lemmas
	if lr := verifyLemmas(g, prop); lr != nil {
		results = append(results, lr)
	}
	tGen := time.Since(t0).Seconds() - tLoad

	for _, m := range bindErrs {
		undecided = append(undecided, "unbound:"+m)
	}

	// collect obligations of this property
	var jobs []job
	lm := loadLabelMap(*flagVerif)
	for _, r := range results {
		spec := g.specs.Funcs[r.Key]
		for _, o := range r.Obls {
			if prop != "" {
				eff := o.Props
				if eff == nil && o.Expect == "" {
					eff = lm.propsFor(o)
				}
				if eff != nil {
					if !hasProp(eff, prop) {
						continue
					}
				} else if spec != nil && !hasProp(spec.Props, prop) {
					continue
				}
			}
			jobs = append(jobs, job{r, o})
		}
	}
	work := filepath.Join(*flagVerif, ".work", fmt.Sprintf("%d", os.Getpid()))
	os.MkdirAll(work, 0755)
	if !*flagKeep {
		defer os.RemoveAll(work)
	}
	budget := 10
	if *flagTier == "thorough" {
		budget = 60
	}
	if *flagBudget > 0 {
		budget = *flagBudget
	}
	jsem := make(chan struct{}, 12)
	var jwg sync.WaitGroup
	for i := range jobs {
		j := jobs[i]
		smt := buildSMT(j.r.Enc, j.o)
		if *flagDump != "" && strings.Contains(j.o.Name, *flagDump) {
			fmt.Println("; ==== " + j.o.Name)
			fmt.Println(smt)
		}
		file, err := writeSMT(work, fmt.Sprintf("%04d_%s", i, j.o.Name), smt)
		if err != nil {
			undecided = append(undecided, "io:"+err.Error())
			continue
		}
		j.o.File = file
		jwg.Add(1)
		go func(o *Obl, file string, lambda bool, enc *Enc) {
			defer jwg.Done()
			jsem <- struct{}{}
			defer func() { <-jsem }()
			if o.Expect == "sat" {
				// reachability / satisfiability probes: a short budget; "unknown" is acceptable, only "unsat" is vacuity
				r := runSolver(context.Background(), solvers[0], file, 2)
				if r.Status != "sat" && r.Status != "unsat" {
					r2 := runSolver(context.Background(), solvers[1], file, 2)
					if r2.Status == "sat" || r2.Status == "unsat" {
						r = r2
					}
				}
				o.Res = r
				return
			}
			if *flagTier == "thorough" && o.Expect == "" {
				best, all, disagree := solveAll(file, budget, lambda)
				o.Res, o.All = best, all
				if disagree {
					o.Res.Status = "disagree"
				}
				if o.Res.Status == "unsat" {
					// stability probe (reported, never an alarm): is the proof found again with other random seeds
					// inside the quick budget?  Slow or seed-dependent proofs are the ones that break first.
					sd := solverDef{"z3-new/reseeded", func(f string, s int) []string {
						return []string{"z3-new", fmt.Sprintf("-T:%d", s), "smt.random_seed=7", "sat.random_seed=7", f}
					}}
					if r2 := runSolver(context.Background(), sd, file, 10); r2.Status != "unsat" {
						o.Unstable = r2.Status
					}
				}
			} else {
				o.Res, o.All = solveFile(file, budget, lambda)
			}
			if o.Res.Status != "sat" && o.Res.Status != "unsat" {
				// conjunctive goal: proving every conjunct separately proves the goal
				if gs, _ := splitGoal(o.Raw); len(gs) > 1 {
					total, ok := 0.0, true
					for k, g := range gs {
						o2 := *o
						o2.Goal = sImp(o.PC, g)
						f2, err := writeSMT(work, fmt.Sprintf("%s_c%d", filepath.Base(strings.TrimSuffix(file, ".smt2")), k+1), buildSMT(enc, &o2))
						if err != nil {
							ok = false
							break
						}
						r, _ := solveFile(f2, budget, lambda)
						total += r.Secs
						if r.Status != "unsat" {
							ok = false
							if r.Status == "sat" {
								o.Res = r
								o.File = f2
							}
							break
						}
					}
					if ok {
						o.Res = SolveResult{Status: "unsat", Solver: "portfolio-per-conjunct", Secs: total}
					}
				}
			}
			if o.Res.Status == "timeout" && *flagTier != "thorough" {
				// last resort before an obligation is reported: once more with three times the budget, so that a
				// loaded machine does not turn a slow proof into an alarm
				if r, all := solveFile(file, 3*budget, lambda); r.Status == "unsat" || r.Status == "sat" {
					o.Res, o.All = r, append(o.All, all...)
				}
			}
			if o.Res.Status == "sat" {
				o.Model = parseModel(o.Res.Model)
			}
		}(j.o, file, j.r.Enc.lambda, j.r.Enc)
	}
	jwg.Wait()
	tSolve := time.Since(t0).Seconds() - tLoad - tGen

	// classify
	known := loadKnown(*flagVerif)
	baseline := loadBaseline(*flagVerif)
	nObl, nDis := 0, 0
	var violations, knownHits, undecidedObl []*Obl
	bySolver := map[string]int{}
	solverSecs := map[string]float64{}
	vacChecks, vacOK := 0, 0
	for _, j := range jobs {
		o := j.o
		if o.Expect == "sat" {
			vacChecks++
			switch o.Res.Status {
			case "unsat":
				undecided = append(undecided, "vacuous:"+o.Name)
			default:
				vacOK++
			}
			continue
		}
		nObl++
		switch o.Res.Status {
		case "unsat":
			nDis++
			bySolver[o.Res.Solver]++
			solverSecs[o.Res.Solver] += o.Res.Secs
		case "sat":
			if kf := matchKnown(known, prop, o.Name); kf != nil {
				knownHits = append(knownHits, o)
			} else {
				violations = append(violations, o)
			}
		case "disagree":
			undecided = append(undecided, "solver-disagreement:"+o.Name)
		default:
			// unknown / timeout: undecided unless the baseline says it used to be discharged
			if kf := matchKnown(known, prop, o.Name); kf != nil {
				knownHits = append(knownHits, o)
			} else if baseline[o.Name] == "unsat" {
				violations = append(violations, o)
			} else if _, known := baseline[o.Name]; !known && len(baseline) > 0 && baselineHasProp(*flagVerif, prop) {
				// an obligation the unchanged tree does not have at all (new code) and that does not discharge
				violations = append(violations, o)
			} else {
				undecidedObl = append(undecidedObl, o)
			}
		}
	}
	sort.Slice(violations, func(i, j int) bool { return violations[i].Name < violations[j].Name })

	// output
	exit := 0
	replayDir := filepath.Join(*flagVerif, "replays")
	for _, o := range knownHits {
		kf := matchKnown(known, prop, o.Name)
		fmt.Printf("KNOWN-FINDING: property=%s %s — %s\n", prop, o.Name, kf.Text)
	}
	for _, o := range violations {
		os.MkdirAll(replayDir, 0755)
		path, replayed := writeReplay(g, replayDir, prop, o)
		suffix := ""
		if !replayed {
			suffix = " no-failing-input-found"
		}
		fmt.Printf("VIOLATION property=%s replay=%s obligation=%s (%s:%d) status=%s%s\n", prop, path, o.Name, shortFile(o.Pos.Filename), o.Pos.Line, o.Res.Status, suffix)
		exit = 1
	}
	for _, o := range undecidedObl {
		undecided = append(undecided, "unproved:"+o.Name+" ("+o.Res.Status+")")
	}
	minExpected := loadMinimum(*flagVerif, prop)
	if prop != "" && nObl < minExpected {
		undecided = append(undecided, fmt.Sprintf("obligation-count:%d<%d", nObl, minExpected))
	}
	sort.Strings(undecided)
	for _, u := range undecided {
		fmt.Printf("UNDECIDED property=%s reason=%s\n", prop, u)
	}
	if exit == 0 && len(undecided) > 0 {
		exit = 2
	}
	wall := time.Since(t0).Seconds()
	fmt.Printf("govc: property=%s tier=%s functions=%d obligations=%d discharged=%d known=%d violations=%d undecided=%d load=%.1fs gen=%.1fs solve=%.1fs\n",
		prop, *flagTier, len(results), nObl, nDis, len(knownHits), len(violations), len(undecided), tLoad, tGen, tSolve)
	if *flagVerbose {
		for _, j := range jobs {
			fmt.Printf("  %-8s %-7s %5.2fs %s\n", j.o.Res.Status, j.o.Res.Solver, j.o.Res.Secs, j.o.Name)
			if *flagSplit && j.o.Res.Status != "unsat" && j.o.Expect == "" {
				d := j.o.Detail
				if len(d) > 300 {
					d = d[:300]
				}
				fmt.Printf("           conjunct: %s\n", d)
			}
		}
	}
	if *flagBase && prop != "" {
		writeBaseline(*flagVerif, prop, jobsObls(jobs))
		var ks []string
		for _, r := range results {
			ks = append(ks, r.Key)
		}
		writeBaselineLocals(*flagVerif, g, ks)
	}
	if prop != "" && !*flagNoEvid {
		writeEvidence(g, prop, results, jobsObls(jobs), nObl, nDis, knownHits, violations, undecided, bySolver, solverSecs, vacChecks, vacOK, wall)
	}
	return exit
}

type job struct {
	r *FuncResult
	o *Obl
}

func jobsObls(js []job) []*Obl {
	var out []*Obl
	for _, j := range js {
		out = append(out, j.o)
	}
	return out
}

func isRepoKey(k string) bool {
	for _, p := range []string{"xixi_kv.", "datafile.", "fio.", "index.", "utils.", "datatype."} {
		if strings.Contains(k, p) {
			return true
		}
	}
	return false
}

func matchKnown(known []KnownFinding, prop, name string) *KnownFinding {
	for i := range known {
		k := &known[i]
		if k.Kind == "finding" && k.Obligation == name && (k.Property == prop || prop == "") {
			return k
		}
	}
	return nil
}

func loadBaseline(verif string) map[string]string {
	m := map[string]string{}
	b, err := os.ReadFile(filepath.Join(verif, "baseline_obligations.json"))
	if err != nil {
		return m
	}
	var raw map[string]map[string]string
	if json.Unmarshal(b, &raw) == nil {
		for _, pm := range raw {
			for k, v := range pm {
				m[k] = v
			}
		}
	}
	return m
}

func loadMinimum(verif, prop string) int {
	b, err := os.ReadFile(filepath.Join(verif, "baseline_obligations.json"))
	if err != nil {
		return 1
	}
	var raw map[string]map[string]string
	if json.Unmarshal(b, &raw) != nil {
		return 1
	}
	n := len(raw[prop])
	if n == 0 {
		return 1
	}
	// tolerate refactorings that remove a few automatic safety obligations
	return n * 7 / 10
}

func verifyLemmas(g *G, prop string) *FuncResult {
	var ls []*Lemma
	for _, l := range g.specs.Lemmas {
		if prop == "" || hasProp(l.Props, prop) {
			ls = append(ls, l)
		}
	}
	if len(ls) == 0 {
		return nil
	}
	e := newEnc(g, nil)
	e.topKey = "lemma"
	fr := &Frame{e: e, env: map[string]*Val{}, specVars: map[string]*Val{}, key: "lemma"}
	st := &State{pc: "true", heap: map[string]string{}}
	e.emitAxioms()
	for _, l := range ls {
		t, err := fr.evalClause(&l.Clause, st, st, nil, nil)
		if err != nil {
			g.reportBindErr("lemma", &l.Clause, err)
			continue
		}
		// lemmas are proved independently: do not assume earlier ones
		o := &Obl{Name: "lemma/" + l.Label, Kind: "lemma", Func: "lemma", Label: l.Label, Props: l.Props, PC: "true", Raw: t, Goal: t, NDecl: len(e.decls)}
		e.obls = append(e.obls, o)
	}
	return &FuncResult{Key: "lemma", Enc: e, Obls: e.obls}
}

func writeEvidence(g *G, prop string, results []*FuncResult, obls []*Obl, nObl, nDis int, knownHits, violations []*Obl, undecided []string,
	bySolver map[string]int, solverSecs map[string]float64, vacChecks, vacOK int, wall float64) {
	var fns []string
	trusted := map[string]bool{}
	abstr := map[string]bool{}
	inl := map[string]bool{}
	for _, r := range results {
		fns = append(fns, r.Key)
		for k := range r.Enc.trusted {
			trusted[k] = true
		}
		for k := range r.Enc.abstr {
			abstr[k] = true
		}
		for k := range r.Enc.inlined {
			inl[k] = true
		}
	}
	keys := func(m map[string]bool) []string {
		var o []string
		for k := range m {
			o = append(o, k)
		}
		sort.Strings(o)
		return o
	}
	var samples []interface{}
	kinds := map[string]int{}
	for _, o := range obls {
		kinds[o.Kind]++
	}
	seen := map[string]bool{}
	for _, o := range obls {
		if o.Expect != "" || seen[o.Kind] || len(samples) >= 8 {
			continue
		}
		seen[o.Kind] = true
		goal := o.Raw
		if len(goal) > 400 {
			goal = goal[:400] + "…"
		}
		samples = append(samples, map[string]interface{}{"obligation": o.Name, "kind": o.Kind, "at": fmt.Sprintf("%s:%d", shortFile(o.Pos.Filename), o.Pos.Line),
			"status": o.Res.Status, "solver": o.Res.Solver, "secs": o.Res.Secs, "smt_goal": goal})
	}
	// the complete list of obligations with their outcome (vacuity probes included, marked as such)
	var full []interface{}
	for _, o := range obls {
		ent := map[string]interface{}{"obligation": o.Name, "kind": o.Kind, "status": o.Res.Status, "solver": o.Res.Solver, "secs": float64(int(o.Res.Secs*100)) / 100}
		if o.Expect == "sat" {
			ent["probe"] = "vacuity probe: expected satisfiable; unsat would mean vacuous"
		}
		full = append(full, ent)
	}
	var kh, vs []string
	for _, o := range knownHits {
		kh = append(kh, o.Name)
	}
	for _, o := range violations {
		vs = append(vs, o.Name)
	}
	level := "proof"
	if len(knownHits) > 0 || nDis != nObl {
		level = "other"
	}
	cov := map[string]interface{}{
		"obligations": nObl, "discharged": nDis,
		"checker_cmd":              fmt.Sprintf("/verif/bin/govc -prop %s -tier %s (SMT portfolio: z3-new 5.1.0, z3 4.8.12, cvc5 1.0.3)", prop, *flagTier),
		"trusted_base":             keys(trusted),
		"functions_under_contract": fns,
		"inlined_helpers":          keys(inl),
		"by_solver":                bySolver,
		"solver_seconds":           solverSecs,
		"obligation_kinds":         kinds,
		"abstractions":             keys(abstr),
		"vacuity":                  map[string]int{"checks": vacChecks, "passed": vacOK},
		"samples":                  samples,
		"reseed_stability": func() interface{} {
			if *flagTier != "thorough" {
				return "not run in this tier (thorough tier only)"
			}
			bad := []string{}
			n := 0
			for _, o := range obls {
				if o.Expect == "" && o.Res.Status == "unsat" {
					n++
					if o.Unstable != "" {
						bad = append(bad, o.Name+" ("+o.Unstable+" with seed 7 in 10 s)")
					}
				}
			}
			return map[string]interface{}{"proofs_rechecked_with_other_seeds": n, "not_found_again_within_the_quick_budget": bad}
		}(),
		"obligation_list":          full,
		"known_findings":           kh,
		"violating_obligations":    vs,
		"undecided":                undecided,
		"contract_scan":            g.specs.Scan,
		"canaries": func() string {
			if v := os.Getenv("GOVC_CANARIES"); v != "" {
				return "must-fail / must-stay-green corpus of this property (/verif/selftest, thorough tier): " + v
			}
			return "not run in this tier (thorough tier only)"
		}(),
		"trusted_contract_validation": func() string {
			if v := os.Getenv("GOVC_TRUSTED_DIFFTEST"); v != "" {
				return "bounded differential tests of the trusted library contracts (/verif/trusted/difftest, thorough tier): " + v
			}
			return "not run in this tier (thorough tier only)"
		}(),
		"explanation": fmt.Sprintf("%d proof obligations generated from the go/ssa form of /repo's working tree for the functions under contract for %s; %d discharged (unsat) by the SMT portfolio; %d match a listed known finding; %d violate.",
			nObl, prop, nDis, len(knownHits), len(violations)),
	}
	assumptions := []string{
		"int is 64-bit (GOARCH=amd64); slice capacities are at most 2^44",
		"go/ssa (x/tools v0.29.0) and the SMT solvers are correct",
		"goroutines, channels, select are dropped constructs; concurrency is covered only by lock-discipline obligations",
		"floating point values are uninterpreted",
		"memory exhaustion and stack overflow are not modelled",
		"termination is proved only where a decreases clause is given",
	}
	assumptions = append(assumptions, propAssumptions[prop]...)
	assumptions = append(assumptions, fmt.Sprintf("every trusted contract, assumed clause, axiom, heap invariant and abstraction this run relied on is listed in coverage.trusted_base (%d entries) and coverage.abstractions (%d entries)", len(trusted), len(abstr)))
	ev := Evidence{PropertyID: prop, Tier: *flagTier, Seed: 0, Level: level, Coverage: cov, Assumptions: assumptions, WallS: wall, Violations: len(violations)}
	if s := os.Getenv("VERIF_SEED"); s != "" {
		fmt.Sscanf(s, "%d", &ev.Seed)
	}
	b, _ := json.MarshalIndent(ev, "", " ")
	os.MkdirAll(filepath.Join(*flagVerif, "evidence"), 0755)
	os.WriteFile(filepath.Join(*flagVerif, "evidence", prop+".json"), b, 0644)
}

var propAssumptions = map[string][]string{}

var _ = token.NoPos

// baseline of local variable names per function under contract (for rename tolerance, see renamedLocal)
func loadBaselineLocals(verif string) {
	if b, err := os.ReadFile(filepath.Join(verif, "baseline_locals.json")); err == nil {
		json.Unmarshal(b, &baselineLocals)
	}
}

func writeBaselineLocals(verif string, g *G, keys []string) {
	path := filepath.Join(verif, "baseline_locals.json")
	raw := map[string][]string{}
	if b, err := os.ReadFile(path); err == nil {
		json.Unmarshal(b, &raw)
	}
	for _, k := range keys {
		if fn := g.fnByKey[k]; fn != nil {
			raw[k] = localNameOrder(fn)
		}
	}
	b, _ := json.MarshalIndent(raw, "", " ")
	os.WriteFile(path, b, 0644)
}

func writeBaseline(verif, prop string, obls []*Obl) {
	path := filepath.Join(verif, "baseline_obligations.json")
	raw := map[string]map[string]string{}
	if b, err := os.ReadFile(path); err == nil {
		json.Unmarshal(b, &raw)
	}
	m := map[string]string{}
	for _, o := range obls {
		if o.Expect != "" {
			continue
		}
		m[o.Name] = o.Res.Status
	}
	raw[prop] = m
	b, _ := json.MarshalIndent(raw, "", " ")
	os.WriteFile(path, b, 0644)
}

func rerunReplay(path string) int {
	b, err := os.ReadFile(path)
	if err != nil {
		fmt.Println("cannot read replay file:", err)
		return 2
	}
	var rf ReplayFile
	if err := json.Unmarshal(b, &rf); err != nil {
		fmt.Println("bad replay file:", err)
		return 2
	}
	fmt.Printf("replay of %s\n  obligation: %s\n  at: %s\n  status: %s (%s)\n", rf.Property, rf.Obligation, rf.At, rf.Status, rf.Solver)
	if len(rf.Inputs) > 0 {
		fmt.Println("  inputs from the solver model:", rf.Inputs)
	}
	if len(rf.Path) > 0 {
		fmt.Println("  path:", rf.Path)
	}
	if rf.ReplayTest == "" {
		fmt.Println("  no concrete replay test is attached (no-failing-input-found); solver output follows")
		fmt.Println(rf.SolverOut)
		return 1
	}
	out, failed := runReplayTest(rf.ReplayPkg, rf.ReplayTest)
	fmt.Println(out)
	if failed {
		fmt.Printf("VIOLATION property=%s replay=%s\n", rf.Property, path)
		return 1
	}
	fmt.Println("replay test passes on the current tree")
	return 0
}

type labelMap struct {
	Kinds  map[string][]string `json:"kinds"`
	Labels map[string][]string `json:"labels"`
}

func loadLabelMap(verif string) *labelMap {
	lm := &labelMap{Kinds: map[string][]string{}, Labels: map[string][]string{}}
	if b, err := os.ReadFile(filepath.Join(verif, "props", "labels.json")); err == nil {
		json.Unmarshal(b, lm)
	}
	return lm
}

// propsFor: default property tags of an obligation from its kind or its clause label (nil = function-level props)
func (lm *labelMap) propsFor(o *Obl) []string {
	if ps, ok := lm.Kinds[o.Kind]; ok {
		return ps
	}
	switch o.Kind {
	case "post", "call.pre", "at":
		l := o.Label
		if k := strings.LastIndex(l, ":"); k >= 0 {
			l = l[k+1:]
		}
		l = strings.TrimPrefix(l, "conform:")
		if ps, ok := lm.Labels[l]; ok {
			return ps
		}
	}
	return nil
}

func baselineHasProp(verif, prop string) bool {
	b, err := os.ReadFile(filepath.Join(verif, "baseline_obligations.json"))
	if err != nil {
		return false
	}
	var raw map[string]map[string]string
	if json.Unmarshal(b, &raw) != nil {
		return false
	}
	return len(raw[prop]) > 0
}
