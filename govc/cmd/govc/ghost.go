package main

// Pools (sync.Pool with a declared per-pool invariant) and byte-array ownership ghost state.

import (
	"fmt"
	"go/token"
	"go/types"
	"strings"
)

// PoolDecl: //@ pool <src> <TypeKey> [label] <invariant over x>
// src is "xixi_kv.DB.recordPool" (field) or "datafile.blockPool" (global).
type PoolDecl struct {
	Src   string
	Type  string
	Inv   []*Clause
	File  string
	Line  int
}

func (fr *Frame) poolOf(p *Val) *PoolDecl {
	if p == nil || p.Src == "" {
		return nil
	}
	return fr.e.g.specs.Pools[p.Src]
}

func (e *Enc) typeByKey(key string) types.Type {
	for _, t := range e.g.allTypes {
		for _, cand := range []types.Type{t, types.NewPointer(t)} {
			if typeKey(e.g, cand) == key {
				return cand
			}
		}
	}
	switch key {
	case "[]byte":
		return types.NewSlice(types.Typ[types.Byte])
	}
	return nil
}

func (fr *Frame) poolInv(p *PoolDecl, x *Val, st *State) []string {
	cf := &Frame{e: fr.e, env: map[string]*Val{"x": x}, specVars: map[string]*Val{}, key: "pool " + p.Src}
	var out []string
	for _, c := range p.Inv {
		t, err := cf.evalClause(c, st, st, nil, nil)
		if err != nil {
			fr.bindErr(c, err)
			continue
		}
		out = append(out, t)
	}
	return out
}

func (fr *Frame) poolGet(p *PoolDecl, pool *Val, st *State, pos token.Pos) *Val {
	e := fr.e
	t := e.typeByKey(p.Type)
	if t == nil {
		fr.bindErr(&Clause{Kind: "pool", Label: p.Src, File: p.File, Line: p.Line}, fmt.Errorf("unbound:type %s", p.Type))
		return &Val{T: e.fresh("poolget", "Iface"), S: "Iface"}
	}
	e.trusted["sync.Pool "+p.Src+": Get returns an exclusively owned object satisfying the pool invariant (invariant proved at every Put; no use after Put assumed)"] = true
	s := e.sortOf(t)
	var x *Val
	tag := e.tagOf(t)
	var res string
	// Exclusive ownership: an object handed out by a pool is referenced by nothing else (a value that
	// was Put is never used again by its former holder), so it is modelled as a fresh object whose
	// fields are unconstrained except for the pool invariant; arrays held in its slice fields are
	// fresh as well.
	if isPointerLike(t) {
		r := e.allocRef(st, "pooled")
		x = &Val{T: r, S: "Int", GoT: t}
		res = fmt.Sprintf("(mk-iface %d %s)", tag, r)
		if pt, ok := t.Underlying().(*types.Pointer); ok {
			if u, ok := pt.Elem().Underlying().(*types.Struct); ok {
				for i := 0; i < u.NumFields(); i++ {
					c, cs, ft := e.fieldComp(pt.Elem(), i)
					fv := sSel(e.get(st, c, "(Array Int "+cs+")"), r)
					if _, isSl := ft.Underlying().(*types.Slice); isSl {
						a := e.allocRef(st, "pooledarr")
						e.assume(st.pc, sAnd(e.wf(ft, fv, e.next(st)), sOr("(= (s-arr "+fv+") 0)", "(= (s-arr "+fv+") "+a+")")))
						if e.ownerOn() {
							e.setOwner(st, a, "1")
						}
					} else {
						e.assume(st.pc, e.wf(ft, fv, e.next(st)))
					}
				}
			}
		}
	} else {
		v := e.fresh("pooledv", s)
		if _, isSl := t.Underlying().(*types.Slice); isSl {
			a := e.allocRef(st, "pooledarr")
			e.assume(st.pc, sAnd(e.wf(t, v, e.next(st)), "(= (s-arr "+v+") "+a+")", "(= (s-off "+v+") 0)"))
			if e.ownerOn() {
				e.setOwner(st, a, "1")
			}
		} else {
			e.assume(st.pc, e.wf(t, v, e.next(st)))
		}
		box := e.allocRef(st, "box")
		comp := "Bx_" + san(s)
		srt := "(Array Int " + s + ")"
		e.set(st, comp, srt, sStore(e.get(st, comp, srt), box, v))
		x = &Val{T: v, S: s, GoT: t}
		res = fmt.Sprintf("(mk-iface %d %s)", tag, box)
	}
	for _, inv := range fr.poolInv(p, x, st) {
		e.assume(st.pc, inv)
	}
	return &Val{T: e.define("poolres", "Iface", res), S: "Iface"}
}

func (fr *Frame) poolPut(p *PoolDecl, pool, x *Val, st *State, pos token.Pos) {
	e := fr.e
	t := e.typeByKey(p.Type)
	if t == nil {
		return
	}
	tag := e.tagOf(t)
	e.oblige("call.pre", "pool "+p.Src+": element type", st.pc, fmt.Sprintf("(= (i-tag %s) %d)", x.T, tag), nil, pos, "")
	var xv *Val
	if isPointerLike(t) {
		xv = &Val{T: "(i-val " + x.T + ")", S: "Int", GoT: t}
	} else {
		s := e.sortOf(t)
		xv = &Val{T: sSel(e.get(st, "Bx_"+san(s), "(Array Int "+s+")"), "(i-val "+x.T+")"), S: s, GoT: t}
	}
	cf := &Frame{e: e, env: map[string]*Val{"x": xv}, specVars: map[string]*Val{}, key: "pool " + p.Src}
	for _, c := range p.Inv {
		tm, err := cf.evalClause(c, st, st, nil, nil)
		if err != nil {
			fr.bindErr(c, err)
			continue
		}
		e.oblige("call.pre", "pool "+p.Src+":"+c.Label, st.pc, tm, c.Props, pos, "pool invariant at Put")
	}
}

// ---------- ownership of byte arrays (C15) ----------
// Owner[arr] : 0 = caller-owned, 1 = engine-owned. Enabled per function by the "ownership" directive.

func (e *Enc) ownerOn() bool { return e.owner }

func (e *Enc) setOwner(st *State, arr string, v string) {
	ow := e.get(st, "Owner", "(Array Int Int)")
	e.set(st, "Owner", "(Array Int Int)", sStore(ow, arr, v))
}

func (fr *Frame) ownerWriteCheck(st *State, arr string, pos token.Pos, what string) {
	e := fr.e
	ow := e.get(st, "Owner", "(Array Int Int)")
	e.oblige("owner", "no write into a caller-owned array: "+fr.srcText(pos), st.pc,
		sOr("(= "+arr+" 0)", "(= "+sSel(ow, arr)+" 1)"), nil, pos, what)
}

// at entry of a public API function: slice parameters are caller-owned, everything else reachable is engine-owned
func (fr *Frame) ownerEntry(st *State, args []*Val) {
	e := fr.e
	ow := e.get(st, "Owner", "(Array Int Int)")
	for i, p := range fr.fn.Params {
		if _, ok := p.Type().Underlying().(*types.Slice); ok {
			if fr.spec != nil && contains(fr.spec.EngineOwned, p.Name()) {
				e.fact(sImp("(not (= (s-arr "+args[i].T+") 0))", "(= "+sSel(ow, "(s-arr "+args[i].T+")")+" 1)"))
				continue
			}
			e.fact(sImp("(not (= (s-arr "+args[i].T+") 0))", "(= "+sSel(ow, "(s-arr "+args[i].T+")")+" 0)"))
		}
	}
}

// ownerExit: no heap location written by the function may still hold a caller-owned byte array.
func (fr *Frame) ownerExit(out *State, res []*Val) {
	e := fr.e
	seen := map[string]bool{}
	ow := e.get(out, "Owner", "(Array Int Int)")
	for _, rs := range e.retained {
		k := rs.loc.Comp + "|" + rs.loc.Base + "|" + rs.loc.Idx + "|" + rs.pc
		if seen[k] || len(rs.loc.Path) > 0 {
			continue
		}
		seen[k] = true
		v := e.locRead(out, rs.loc)
		o := e.oblige("owner", "no caller buffer retained in "+rs.desc, sAnd(out.pc, rs.pc),
			sOr("(= (s-arr "+v+") 0)", "(= "+sSel(ow, "(s-arr "+v+")")+" 1)"), nil, rs.pos, "a heap location written by this call still refers to a caller-owned array at return")
		_ = o
	}
}

type retainedStore struct {
	loc  *Loc
	desc string
	pos  token.Pos
	pc   string
}

// ownerAfterCall: arrays allocated by a callee under contract are engine-owned; ownership of existing arrays is unchanged.
func (e *Enc) ownerAfterCall(st *State, pc, nxBefore string) {
	old := e.get(st, "Owner", "(Array Int Int)")
	n := e.havocComp(st, "Owner", "(Array Int Int)")
	e.ctr++
	q := fmt.Sprintf("ow!%d", e.ctr)
	e.assume(pc, fmt.Sprintf("(forall ((%s Int)) (! (= (select %s %s) (ite (< %s %s) (select %s %s) 1)) :pattern ((select %s %s))))", q, n, q, q, nxBefore, old, q, n, q))
}

func isByteSlice(t types.Type) bool {
	s, ok := t.Underlying().(*types.Slice)
	if !ok {
		return false
	}
	b, ok := s.Elem().Underlying().(*types.Basic)
	return ok && b.Kind() == types.Uint8
}

var _ = strings.HasPrefix
