package main

// SSA function -> facts and obligations.

import (
	"fmt"
	"go/ast"
	"go/constant"
	"go/token"
	"go/types"
	"sort"
	"strings"

	"golang.org/x/tools/go/ssa"
)

const maxInlineDepth = 6

type callRes struct {
	pc  string
	val *Val
}

type deferRec struct {
	instr *ssa.Defer
	flag  string
	args  []*Val
	recv  *Val
}

type retRec struct {
	st   *State
	vals []*Val
	pos  token.Pos
}

// lineText: the trimmed source line at pos (used to name return sites)
func (fr *Frame) lineText(pos token.Pos) string {
	p := fr.e.g.fset.Position(pos)
	src := fr.e.g.source(p.Filename)
	ls := strings.Split(src, "\n")
	if p.Line >= 1 && p.Line <= len(ls) {
		return strings.Join(strings.Fields(ls[p.Line-1]), " ")
	}
	return fmt.Sprintf("%s:%d", shortFile(p.Filename), p.Line)
}

type loopInfo struct {
	header *ssa.BasicBlock
	blocks map[*ssa.BasicBlock]bool
	ord    int
	backs  []*ssa.BasicBlock // sources of back edges
}

type Frame struct {
	e       *Enc
	fn      *ssa.Function
	key     string
	prefix  string
	vals    map[ssa.Value]*Val
	spec    *FuncSpec
	entry   *State
	depth   int
	parent  *Frame
	rets    []retRec
	defers  []deferRec
	out     map[*ssa.BasicBlock]*State // state at block end (before terminator edges)
	edge    map[[2]int]*State          // (pred index, succ position) -> state along edge
	loops   map[*ssa.BasicBlock]*loopInfo
	order   []*ssa.BasicBlock
	derefOK map[ssa.Value]*ssa.BasicBlock
	env     map[string]*Val // named values for contracts: params, lets
	isTop   bool
	phiHav  map[*ssa.Phi]string
	invCtx  map[*ssa.BasicBlock]map[string]*Val
	decr0   map[*ssa.BasicBlock]string
	unshared map[string]bool
	ghostAlias map[string]string // conformance: interface ghost field key -> abstraction expression
	unaliased  string            // set when a clause read an interface ghost field of the receiver that has no abstraction
	aliasSelf  *Val              // the interface value wrapping the receiver
	aliasRecv  *Val              // the receiver itself
	rangeDom  map[*ssa.Range]string // map range: the key set of the map when the iteration started
	atExit    bool // evaluating postconditions: a local name denotes a definition that reaches every return
	curBlock  *ssa.BasicBlock
	dryHeader *ssa.BasicBlock
	dryStates *[]*State
	stopped   bool
	cellMeta  map[string]*Val
	cellVal   map[string]string
	closureBind map[string]*Val
	callerFrame *Frame // for contract frames: the frame at whose call site the contract is applied
	boxed     map[string]*Val
	rangeSrc  map[*ssa.Range]ssa.Value
	seenComp  map[*ssa.Range]string
	debug     []dbgRef
	specVars  map[string]*Val
	lets      []LetDef
	specPkg   *types.Package
	extraRequires []string
	extraEnsures  []*Clause
	extraModifies []string
	atHits        map[*AtAssert]int
	callResults   map[string][]callRes
	loopFrames    map[*ssa.BasicBlock][]loopFrame
	targets       map[string][]modTarget
}

func (e *Enc) newFrame(fn *ssa.Function, parent *Frame) *Frame {
	e.ctr++
	fr := &Frame{e: e, fn: fn, key: fnKey(e.g, fn), prefix: fmt.Sprintf("f%d", e.ctr), vals: map[ssa.Value]*Val{},
		out: map[*ssa.BasicBlock]*State{}, edge: map[[2]int]*State{}, derefOK: map[ssa.Value]*ssa.BasicBlock{},
		env: map[string]*Val{}, parent: parent, phiHav: map[*ssa.Phi]string{}, invCtx: map[*ssa.BasicBlock]map[string]*Val{},
		decr0: map[*ssa.BasicBlock]string{}, unshared: map[string]bool{}, cellMeta: map[string]*Val{}, boxed: map[string]*Val{},
		rangeSrc: map[*ssa.Range]ssa.Value{}, seenComp: map[*ssa.Range]string{}, specVars: map[string]*Val{}, atHits: map[*AtAssert]int{}, callResults: map[string][]callRes{}}
	if parent != nil {
		fr.depth = parent.depth + 1
	}
	fr.spec = e.g.specs.Funcs[fr.key]
	return fr
}

// ---------- CFG analysis ----------

func (fr *Frame) analyse() {
	fn := fr.fn
	// reverse postorder ignoring back edges and the recover block
	seen := map[*ssa.BasicBlock]bool{}
	var post []*ssa.BasicBlock
	var dfs func(b *ssa.BasicBlock)
	dfs = func(b *ssa.BasicBlock) {
		seen[b] = true
		for _, s := range b.Succs {
			if !seen[s] {
				dfs(s)
			}
		}
		post = append(post, b)
	}
	dfs(fn.Blocks[0])
	for i := len(post) - 1; i >= 0; i-- {
		fr.order = append(fr.order, post[i])
	}
	// natural loops
	fr.loops = map[*ssa.BasicBlock]*loopInfo{}
	for _, b := range fr.order {
		for _, s := range b.Succs {
			if s.Dominates(b) { // back edge b -> s
				li := fr.loops[s]
				if li == nil {
					li = &loopInfo{header: s, blocks: map[*ssa.BasicBlock]bool{s: true}}
					fr.loops[s] = li
				}
				li.backs = append(li.backs, b)
				// collect body
				var stack []*ssa.BasicBlock
				if !li.blocks[b] {
					li.blocks[b] = true
					stack = append(stack, b)
				}
				for len(stack) > 0 {
					x := stack[len(stack)-1]
					stack = stack[:len(stack)-1]
					for _, p := range x.Preds {
						if !li.blocks[p] && seen[p] {
							li.blocks[p] = true
							stack = append(stack, p)
						}
					}
				}
			}
		}
	}
	// the RPO must respect "all non-back-edge preds first": plain RPO of a reducible CFG does.
	// Second pass: the same RPO, but successors that leave loops are visited first by the DFS, so the
	// blocks of a loop body come before the code after the loop; an obligation at a back edge then does
	// not carry the facts of the continuation as hypotheses.
	depth := func(b *ssa.BasicBlock) int {
		d := 0
		for _, li := range fr.loops {
			if li.blocks[b] {
				d++
			}
		}
		return d
	}
	seen2 := map[*ssa.BasicBlock]bool{}
	var post2 []*ssa.BasicBlock
	var dfs2 func(b *ssa.BasicBlock)
	dfs2 = func(b *ssa.BasicBlock) {
		seen2[b] = true
		succs := append([]*ssa.BasicBlock(nil), b.Succs...)
		sort.SliceStable(succs, func(i, j int) bool { return depth(succs[i]) < depth(succs[j]) })
		for _, s := range succs {
			if !seen2[s] {
				dfs2(s)
			}
		}
		post2 = append(post2, b)
	}
	dfs2(fn.Blocks[0])
	fr.order = fr.order[:0]
	for i := len(post2) - 1; i >= 0; i-- {
		fr.order = append(fr.order, post2[i])
	}
	// loop ordinals by source position of the header's first positioned instruction
	var hs []*ssa.BasicBlock
	for h := range fr.loops {
		hs = append(hs, h)
	}
	sort.Slice(hs, func(i, j int) bool { return blockPos(hs[i]) < blockPos(hs[j]) })
	for i, h := range hs {
		fr.loops[h].ord = i + 1
	}
}

func blockPos(b *ssa.BasicBlock) token.Pos {
	// loops: use the smallest valid position among the instructions of the header and its body start
	best := token.Pos(0)
	for _, in := range b.Instrs {
		if p := in.Pos(); p.IsValid() && (best == 0 || p < best) {
			best = p
		}
	}
	if best == 0 {
		for _, s := range b.Succs {
			for _, in := range s.Instrs {
				if p := in.Pos(); p.IsValid() && (best == 0 || p < best) {
					best = p
				}
			}
		}
	}
	if best == 0 {
		best = token.Pos(1<<30 + b.Index)
	}
	return best
}


// ---------- values ----------

func (fr *Frame) name(v ssa.Value) string {
	n := v.Name()
	if c, ok := v.(*ssa.Phi); ok && c.Comment != "" {
		n += "_" + c.Comment
	}
	return fr.prefix + "_" + san(n)
}

func (fr *Frame) setVal(v ssa.Value, val *Val) {
	if val.GoT == nil {
		val.GoT = v.Type()
	}
	fr.vals[v] = val
}

// bind defines a named constant for an SSA value.
func (fr *Frame) bind(v ssa.Value, term string) *Val {
	s := fr.e.sortOf(v.Type())
	n := fr.name(v)
	if fr.e.declared[n] {
		fr.e.ctr++
		n = fmt.Sprintf("%s!%d", n, fr.e.ctr)
	}
	fr.e.declare(n, s)
	fr.e.fact(sEq(n, term))
	val := &Val{T: n, S: s, GoT: v.Type()}
	fr.vals[v] = val
	return val
}

func (fr *Frame) havocVal(v ssa.Value, st *State) *Val {
	if _, ok := v.Type().(*types.Tuple); ok {
		tup := v.Type().(*types.Tuple)
		val := &Val{S: "Tuple", GoT: v.Type()}
		for i := 0; i < tup.Len(); i++ {
			t := tup.At(i).Type()
			n := fr.e.fresh(fr.name(v)+fmt.Sprintf("_%d", i), fr.e.sortOf(t))
			fr.e.assume(st.pc, fr.e.wf(t, n, fr.e.next(st)))
			val.Tup = append(val.Tup, &Val{T: n, S: fr.e.sortOf(t), GoT: t})
		}
		fr.vals[v] = val
		return val
	}
	s := fr.e.sortOf(v.Type())
	n := fr.e.fresh(fr.name(v), s)
	fr.e.assume(st.pc, fr.e.wf(v.Type(), n, fr.e.next(st)))
	val := &Val{T: n, S: s, GoT: v.Type()}
	fr.vals[v] = val
	return val
}

func (fr *Frame) val(v ssa.Value) *Val {
	if x, ok := fr.vals[v]; ok {
		return x
	}
	e := fr.e
	switch c := v.(type) {
	case *ssa.Const:
		return fr.constVal(c)
	case *ssa.Global:
		return e.globalPtr(c)
	case *ssa.Function:
		return &Val{T: "0", S: "Int", GoT: c.Type(), Clo: &Closure{Fn: c}}
	case *ssa.Builtin:
		return &Val{T: "0", S: "Int", GoT: c.Type()}
	}
	// a value not yet defined (should not happen in RPO except through unreachable code)
	s := e.sortOf(v.Type())
	n := e.fresh(fr.name(v)+"_undef", s)
	val := &Val{T: n, S: s, GoT: v.Type()}
	fr.vals[v] = val
	return val
}

func (e *Enc) strID(s string) string {
	id, ok := e.g.strs[s]
	if !ok {
		id = len(e.g.strs) + 1
		e.g.strs[s] = id
	}
	n := fmt.Sprintf("str%d", id)
	if !e.declared[n] {
		e.declared[n] = true
		e.declRaw(fmt.Sprintf("(define-fun %s () Int %d)", n, 1000000+id))
		e.fact(fmt.Sprintf("(= (strlen %s) %d)", n, len(s)))
	}
	return n
}

func (fr *Frame) constVal(c *ssa.Const) *Val {
	e := fr.e
	t := c.Type()
	s := e.sortOf(t)
	if c.Value == nil {
		return &Val{T: e.zero(t), S: s, GoT: t}
	}
	switch c.Value.Kind() {
	case constant.Bool:
		if constant.BoolVal(c.Value) {
			return &Val{T: "true", S: "Bool", GoT: t}
		}
		return &Val{T: "false", S: "Bool", GoT: t}
	case constant.Int:
		if b, ok := t.Underlying().(*types.Basic); ok && b.Info()&types.IsFloat != 0 {
			return &Val{T: e.fresh("fconst", "Int"), S: "Int", GoT: t}
		}
		str := c.Value.ExactString()
		if strings.HasPrefix(str, "-") {
			str = "(- " + str[1:] + ")"
		}
		return &Val{T: str, S: "Int", GoT: t}
	case constant.String:
		return &Val{T: e.strID(constant.StringVal(c.Value)), S: "Int", GoT: t}
	case constant.Float:
		return &Val{T: e.fresh("fconst", "Int"), S: "Int", GoT: t}
	}
	return &Val{T: e.zero(t), S: s, GoT: t}
}

func (e *Enc) globalKey(gl *ssa.Global) string {
	p := "nopkg"
	if gl.Pkg != nil {
		p = gl.Pkg.Pkg.Name()
	}
	return p + "." + gl.Name()
}

func (e *Enc) isImmutableGlobal(gl *ssa.Global) bool {
	pt := gl.Type().(*types.Pointer).Elem()
	if types.Identical(pt, types.Universe.Lookup("error").Type()) {
		return true
	}
	if gl.Pkg == nil || !strings.HasPrefix(gl.Pkg.Pkg.Path(), e.g.modPath) {
		return true
	}
	return false
}

func (e *Enc) globalPtr(gl *ssa.Global) *Val {
	key := e.globalKey(gl)
	pt := gl.Type().(*types.Pointer).Elem()
	return &Val{T: "(- 0 " + fmt.Sprint(1000+e.globalID(key)) + ")", S: "Int", GoT: gl.Type(), Src: key, Loc: &Loc{Kind: locGlobal, Comp: "Gv_" + san(key), CS: e.sortOf(pt), GoT: pt, Field: key}}
}

func (e *Enc) globalID(key string) int {
	id, ok := e.g.globIDs[key]
	if !ok {
		id = len(e.g.globIDs) + 1
		e.g.globIDs[key] = id
	}
	return id
}

// errConst: immutable error global -> distinct non-nil interface constant
func (e *Enc) errConst(key string) string {
	id, ok := e.g.errIDs[key]
	if !ok {
		id = len(e.g.errIDs) + 1
		e.g.errIDs[key] = id
	}
	return fmt.Sprintf("(mk-iface 9999 %d)", id)
}

func (e *Enc) immGlobalVal(loc *Loc) string {
	if types.Identical(loc.GoT, types.Universe.Lookup("error").Type()) {
		return e.errConst(loc.Field)
	}
	n := "gc_" + san(loc.Field)
	if !e.declared[n] {
		s := e.sortOf(loc.GoT)
		e.declare(n, s)
	}
	return n
}

// ---------- loads and stores ----------

func (e *Enc) locRead(st *State, loc *Loc) string {
	var v string
	switch loc.Kind {
	case locField, locCell:
		v = sSel(e.get(st, loc.Comp, "(Array Int "+loc.CS+")"), loc.Base)
	case locElem:
		v = sSel(sSel(e.get(st, loc.Comp, arrSort(loc.CS)), loc.Base), loc.Idx)
	case locGlobal:
		v = e.get(st, loc.Comp, loc.CS)
	}
	for _, a := range loc.Path {
		v = fmt.Sprintf("(%s_%d %s)", a.DT, a.Idx, v)
	}
	return v
}

func (e *Enc) locWrite(st *State, loc *Loc, val string) {
	// rebuild through the accessor path
	var root string
	switch loc.Kind {
	case locField, locCell:
		root = sSel(e.get(st, loc.Comp, "(Array Int "+loc.CS+")"), loc.Base)
	case locElem:
		root = sSel(sSel(e.get(st, loc.Comp, arrSort(loc.CS)), loc.Base), loc.Idx)
	case locGlobal:
		root = e.get(st, loc.Comp, loc.CS)
	}
	nv := e.updPath(root, loc.Path, val)
	switch loc.Kind {
	case locField, locCell:
		srt := "(Array Int " + loc.CS + ")"
		e.set(st, loc.Comp, srt, sStore(e.get(st, loc.Comp, srt), loc.Base, nv))
	case locElem:
		srt := arrSort(loc.CS)
		cur := e.get(st, loc.Comp, srt)
		e.set(st, loc.Comp, srt, sStore(cur, loc.Base, sStore(sSel(cur, loc.Base), loc.Idx, nv)))
	case locGlobal:
		e.set(st, loc.Comp, loc.CS, nv)
	}
}

func (e *Enc) updPath(root string, path []accessor, val string) string {
	if len(path) == 0 {
		return val
	}
	a := path[0]
	inner := e.updPath(fmt.Sprintf("(%s_%d %s)", a.DT, a.Idx, root), path[1:], val)
	var fs []string
	for i := 0; i < a.N; i++ {
		if i == a.Idx {
			fs = append(fs, inner)
		} else {
			fs = append(fs, fmt.Sprintf("(%s_%d %s)", a.DT, i, root))
		}
	}
	return "(mk_" + a.DT + " " + strings.Join(fs, " ") + ")"
}

// ptrLoc returns the location a pointer value designates.
func (fr *Frame) ptrLoc(p *Val) *Loc {
	if p.Loc != nil {
		return p.Loc
	}
	e := fr.e
	pt, ok := p.GoT.Underlying().(*types.Pointer)
	if !ok {
		return nil
	}
	el := pt.Elem()
	if _, isStruct := el.Underlying().(*types.Struct); isStruct {
		return &Loc{Kind: locStruct, Base: p.T, GoT: el}
	}
	if _, isArr := el.Underlying().(*types.Array); isArr {
		return &Loc{Kind: locStruct, Base: p.T, GoT: el}
	}
	s := e.sortOf(el)
	return &Loc{Kind: locCell, Comp: "C_" + san(s), CS: s, Base: p.T, GoT: el}
}

func (fr *Frame) load(st *State, p *Val, pos token.Pos) *Val {
	e := fr.e
	loc := fr.ptrLoc(p)
	if loc == nil {
		n := e.fresh("load", "Int")
		return &Val{T: n, S: "Int"}
	}
	if loc.Kind == locGlobal && fr.isImmGlobal(loc) {
		return &Val{T: e.immGlobalVal(loc), S: e.sortOf(loc.GoT), GoT: loc.GoT}
	}
	if loc.Kind == locStruct {
		// whole-struct load
		u, ok := loc.GoT.Underlying().(*types.Struct)
		if !ok || e.isOpaqueStruct(loc.GoT) {
			s := e.sortOf(loc.GoT)
			return &Val{T: e.fresh("opaque", s), S: s, GoT: loc.GoT}
		}
		s := e.sortOf(loc.GoT)
		var fs []string
		for i := 0; i < u.NumFields(); i++ {
			c, cs, _ := e.fieldComp(loc.GoT, i)
			fs = append(fs, sSel(e.get(st, c, "(Array Int "+cs+")"), loc.Base))
		}
		return &Val{T: "(mk_" + s + " " + strings.Join(fs, " ") + ")", S: s, GoT: loc.GoT}
	}
	fr.guardCheck(st, loc, false, pos)
	t := e.locRead(st, loc)
	v := &Val{T: t, S: e.sortOf(loc.GoT), GoT: loc.GoT}
	if loc.Kind == locField && len(loc.Path) == 0 {
		v.Src = loc.StructKey + "." + loc.Field
	} else if loc.Kind == locGlobal {
		v.Src = loc.Field
	}
	return v
}

func (fr *Frame) isImmGlobal(loc *Loc) bool {
	if types.Identical(loc.GoT, types.Universe.Lookup("error").Type()) {
		return true
	}
	// non-repo globals are immutable constants
	k := loc.Field
	pk := k[:strings.Index(k, ".")]
	_, repo := fr.e.g.repoPkgs[pk]
	return !repo
}

func (fr *Frame) store(st *State, p *Val, v *Val, pos token.Pos) {
	e := fr.e
	loc := fr.ptrLoc(p)
	if loc == nil {
		return
	}
	if loc.Kind == locStruct {
		u, ok := loc.GoT.Underlying().(*types.Struct)
		if !ok || e.isOpaqueStruct(loc.GoT) {
			return
		}
		s := e.sortOf(loc.GoT)
		for i := 0; i < u.NumFields(); i++ {
			c, cs, _ := e.fieldComp(loc.GoT, i)
			srt := "(Array Int " + cs + ")"
			e.set(st, c, srt, sStore(e.get(st, c, srt), loc.Base, fmt.Sprintf("(%s_%d %s)", s, i, v.T)))
		}
		return
	}
	fr.guardCheck(st, loc, true, pos)
	if e.ownerOn() {
		if loc.Kind == locElem && loc.Comp == "A_byte" {
			fr.ownerWriteCheck(st, loc.Base, pos, "element store")
		}
		if loc.GoT != nil && isByteSlice(loc.GoT) && (loc.Kind == locField || loc.Kind == locElem) {
			desc := loc.Comp
			if loc.StructKey != "" {
				desc = loc.StructKey + "." + loc.Field
			}
			e.retained = append(e.retained, retainedStore{loc: loc, desc: desc, pos: pos, pc: st.pc})
		}
	}
	e.locWrite(st, loc, v.T)
}

// guarded_by obligations
func (fr *Frame) guardCheck(st *State, loc *Loc, write bool, pos token.Pos) {
	if loc.Kind != locField || loc.StructKey == "" || len(loc.Path) > 0 && false {
		return
	}
	e := fr.e
	for _, g := range e.g.specs.Guards {
		if g.Type != loc.StructKey {
			continue
		}
		hit := false
		for _, f := range g.Fields {
			if f == loc.Field {
				hit = true
			}
		}
		if !hit {
			continue
		}
		if fr.isUnshared(loc.Base) {
			continue
		}
		// lock value: field g.Lock of the same object; pointer field or embedded struct
		lockT := fr.lockTerm(st, loc, g)
		if lockT == "" {
			continue
		}
		hw := sSel(e.get(st, "G_sync_RWMutex_heldW", "(Array Int Bool)"), lockT)
		hr := sSel(e.get(st, "G_sync_RWMutex_heldR", "(Array Int Bool)"), lockT)
		mode := "read"
		goal := sOr(hw, hr)
		if write {
			mode = "write"
			goal = hw
		}
		if !strings.HasPrefix(lockT, "(fp_") {
			// an object whose lock pointer is nil is a private instance that no other goroutine can reach
			goal = sOr("(= "+lockT+" 0)", goal)
		}
		e.oblige("guard", fmt.Sprintf("%s.%s %s under %s", g.Type, loc.Field, mode, g.Lock), st.pc, goal, nil, pos, "")
	}
}

func (fr *Frame) isUnshared(base string) bool {
	for f := fr; f != nil; f = f.parent {
		if f.unshared[base] {
			return true
		}
	}
	return fr.e.localRefs[base]
}

func (fr *Frame) lockTerm(st *State, loc *Loc, g *GuardedBy) string {
	e := fr.e
	// find struct type by key among repo types
	for _, t := range e.g.allTypes {
		if typeKey(e.g, t) != g.Type {
			continue
		}
		u, ok := t.Underlying().(*types.Struct)
		if !ok {
			continue
		}
		for i := 0; i < u.NumFields(); i++ {
			if u.Field(i).Name() != g.Lock {
				continue
			}
			if _, isPtr := u.Field(i).Type().Underlying().(*types.Pointer); isPtr {
				c, cs, _ := e.fieldComp(t, i)
				return sSel(e.get(st, c, "(Array Int "+cs+")"), loc.Base)
			}
			return fmt.Sprintf("(fp_%s_%s %s)", san(g.Type), g.Lock, loc.Base)
		}
	}
	return ""
}

func (e *Enc) fpFun(structKey, field string) string {
	n := fmt.Sprintf("fp_%s_%s", san(structKey), field)
	if !e.declared[n] {
		e.declared[n] = true
		e.declRaw(fmt.Sprintf("(declare-fun %s (Int) Int)", n))
		// interior pointers are injective in their base object and never collide with object references
		e.declRaw(fmt.Sprintf("(declare-fun %s_inv (Int) Int)", n))
		e.declRaw(fmt.Sprintf("(assert (forall ((r Int)) (! (and (= (%s_inv (%s r)) r) (< (%s r) 0) (= (mod (%s r) 2) 0)) :pattern ((%s r)))))", n, n, n, n, n))
		e.fpFuns = append(e.fpFuns, n)
	}
	return n
}

// ---------- safety helpers ----------

func (fr *Frame) srcText(pos token.Pos, kinds ...string) string {
	if !pos.IsValid() {
		return "?"
	}
	g := fr.e.g
	p := g.fset.Position(pos)
	// find innermost ast node of the wanted kind at this position
	var file *ast.File
	for f := fr; f != nil && file == nil; f = f.parent {
		if f.fn.Pkg != nil {
			for _, af := range fnSyntaxFiles(g, f.fn) {
				if g.fset.Position(af.Pos()).Filename == p.Filename {
					file = af
				}
			}
		}
	}
	if file == nil {
		file = g.fileOf(p.Filename)
	}
	if file == nil {
		return fmt.Sprintf("%s:%d", shortFile(p.Filename), p.Line)
	}
	var best ast.Node
	ast.Inspect(file, func(n ast.Node) bool {
		if n == nil {
			return false
		}
		if n.Pos() > pos || n.End() < pos {
			return false
		}
		ok := false
		switch x := n.(type) {
		case *ast.IndexExpr:
			ok = x.Lbrack == pos || x.Pos() == pos
		case *ast.SliceExpr:
			ok = x.Lbrack == pos || x.Pos() == pos
		case *ast.SelectorExpr:
			ok = x.Sel.Pos() == pos || x.Pos() == pos
		case *ast.StarExpr:
			ok = x.Star == pos
		case *ast.CallExpr:
			ok = x.Lparen == pos || x.Pos() == pos
		case *ast.BinaryExpr:
			ok = x.OpPos == pos
		case *ast.TypeAssertExpr:
			ok = x.Lparen == pos || x.Pos() == pos
		case *ast.UnaryExpr:
			ok = x.OpPos == pos
		case *ast.CompositeLit:
			ok = x.Lbrace == pos || x.Pos() == pos
		}
		if ok {
			best = n
		}
		return true
	})
	if best == nil {
		return fmt.Sprintf("%s:%d", shortFile(p.Filename), p.Line)
	}
	src := g.source(p.Filename)
	s, t := g.fset.Position(best.Pos()).Offset, g.fset.Position(best.End()).Offset
	if src == "" || s < 0 || t > len(src) || s >= t {
		return fmt.Sprintf("%s:%d", shortFile(p.Filename), p.Line)
	}
	txt := strings.Join(strings.Fields(src[s:t]), " ")
	if len(txt) > 70 {
		txt = txt[:70] + "…"
	}
	return txt
}

func shortFile(f string) string {
	if k := strings.LastIndex(f, "/"); k >= 0 {
		return f[k+1:]
	}
	return f
}

func (fr *Frame) nilCheck(st *State, v ssa.Value, p *Val, pos token.Pos, what string) {
	if p.Loc != nil && (p.Loc.Kind == locField || p.Loc.Kind == locElem || p.Loc.Kind == locGlobal || p.Loc.Kind == locCell) {
		return // derived pointers are never nil
	}
	if _, isAlloc := v.(*ssa.Alloc); isAlloc {
		return
	}
	if b, ok := fr.derefOK[v]; ok {
		if cur := fr.curBlock; cur != nil && b != nil && b.Dominates(cur) {
			return
		}
	}
	fr.derefOK[v] = fr.curBlock
	fr.e.oblige("safety", "nil deref: "+fr.srcText(pos), st.pc, "(not (= "+p.T+" 0))", nil, pos, what)
}

func instrBlock(v ssa.Value) *ssa.BasicBlock {
	if in, ok := v.(ssa.Instruction); ok {
		return in.Block()
	}
	return nil
}
