package main

import (
	"encoding/json"
	"os"
	"os/exec"
	"path/filepath"
	"regexp"
	"sort"
	"strings"
)

type ReplayFile struct {
	Property   string            `json:"property"`
	Obligation string            `json:"obligation"`
	Kind       string            `json:"kind"`
	Function   string            `json:"function"`
	At         string            `json:"at"`
	Status     string            `json:"status"`
	Solver     string            `json:"solver"`
	Goal       string            `json:"smt_goal"`
	Model      map[string]string `json:"model,omitempty"`
	Inputs     map[string]string `json:"inputs,omitempty"`
	Path       []string          `json:"path,omitempty"`
	SolverOut  string            `json:"solver_output"`
	Replayed   bool              `json:"replayed_on_real_code"`
	ReplayPkg  string            `json:"replay_package_dir,omitempty"`
	ReplayTest string            `json:"replay_test_source,omitempty"`
	ReplayOut  string            `json:"replay_output,omitempty"`
	Note       string            `json:"note,omitempty"`
}

var reFile = regexp.MustCompile(`[^A-Za-z0-9_.-]+`)

func writeReplay(g *G, dir, prop string, o *Obl) (string, bool) {
	rf := &ReplayFile{Property: prop, Obligation: o.Name, Kind: o.Kind, Function: o.Func, Status: o.Res.Status, Solver: o.Res.Solver, Goal: o.Raw}
	rf.At = shortFile(o.Pos.Filename)
	if o.Pos.Line > 0 {
		rf.At += ":" + itoa(o.Pos.Line)
	}
	out := o.Res.Raw
	if len(out) > 6000 {
		out = out[:6000] + "…"
	}
	rf.SolverOut = out
	if o.Model != nil {
		rf.Model = map[string]string{}
		rf.Inputs = map[string]string{}
		var ks []string
		for k := range o.Model {
			ks = append(ks, k)
		}
		sort.Strings(ks)
		for _, k := range ks {
			if len(rf.Model) < 400 {
				rf.Model[k] = o.Model[k]
			}
			if len(k) > 3 && k[:3] == "in_" {
				rf.Inputs[k[3:]] = o.Model[k]
			}
		}
		for name, c := range o.Hints {
			if o.Model[c] == "true" {
				rf.Path = append(rf.Path, name)
			}
		}
		sort.Strings(rf.Path)
	}
	replayed := tryReplay(g, rf, o)
	rf.Replayed = replayed
	if !replayed && rf.Note == "" {
		rf.Note = "no replay adapter produced a failing concrete input for this obligation; the failed obligation and the solver output are attached"
	}
	name := reFile.ReplaceAllString(o.Name, "_")
	if len(name) > 140 {
		name = name[:140]
	}
	p := filepath.Join(dir, prop+"__"+name+".json")
	b, _ := json.MarshalIndent(rf, "", " ")
	os.WriteFile(p, b, 0644)
	return p, replayed
}

func itoa(n int) string {
	if n == 0 {
		return "0"
	}
	s := ""
	for n > 0 {
		s = string(rune('0'+n%10)) + s
		n /= 10
	}
	return s
}

// tryReplay: per-function adapters turn a model into a concrete test run against the real code.
func tryReplay(g *G, rf *ReplayFile, o *Obl) bool {
	return false
}

// runReplayTest injects an in-package test with go test -overlay (nothing is written into the repo)
// and runs it against the real code.  Returns output and whether the test failed.
func runReplayTest(pkgDir, src string) (string, bool) {
	tmp, err := os.MkdirTemp(filepath.Join(*flagVerif, ".work"), "replay")
	if err != nil {
		os.MkdirAll(filepath.Join(*flagVerif, ".work"), 0755)
		tmp, err = os.MkdirTemp(filepath.Join(*flagVerif, ".work"), "replay")
		if err != nil {
			return err.Error(), false
		}
	}
	defer os.RemoveAll(tmp)
	tf := filepath.Join(tmp, "zz_replay_test.go")
	os.WriteFile(tf, []byte(src), 0644)
	target := filepath.Join(*flagRepo, pkgDir, "zz_govc_replay_test.go")
	ov := map[string]map[string]string{"Replace": {target: tf}}
	ob, _ := json.Marshal(ov)
	of := filepath.Join(tmp, "ov.json")
	os.WriteFile(of, ob, 0644)
	cmd := exec.Command("bash", "-c", "ulimit -v 8000000; cd "+filepath.Join(*flagRepo, pkgDir)+" && go test -overlay "+of+" -vet=off -count=1 -timeout 60s -run TestGovcReplay . 2>&1 | tail -40")
	cmd.Env = append(os.Environ(), "GOFLAGS=-mod=mod", "GOPROXY=off", "GOSUMDB=off", "GOTOOLCHAIN=local")
	out, _ := cmd.CombinedOutput()
	txt := string(out)
	failed := strings.Contains(txt, "--- FAIL") || strings.Contains(txt, "panic:") || strings.Contains(txt, "FAIL\t")
	return txt, failed
}
