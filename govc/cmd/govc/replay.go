package main

import (
	"context"
	"encoding/json"
	"fmt"
	"go/types"
	"os"
	"os/exec"
	"path/filepath"
	"regexp"
	"sort"
	"strings"
)

type ReplayFile struct {
	Property   string            `json:"property"`
	Obligation string            `json:"obligation"`
	Kind       string            `json:"kind"`
	Function   string            `json:"function"`
	At         string            `json:"at"`
	Status     string            `json:"status"`
	Solver     string            `json:"solver"`
	Goal       string            `json:"smt_goal"`
	Model      map[string]string `json:"model,omitempty"`
	Inputs     map[string]string `json:"inputs,omitempty"`
	Path       []string          `json:"path,omitempty"`
	SolverOut  string            `json:"solver_output"`
	Replayed   bool              `json:"replayed_on_real_code"`
	ReplayPkg  string            `json:"replay_package_dir,omitempty"`
	ReplayTest string            `json:"replay_test_source,omitempty"`
	ReplayOut  string            `json:"replay_output,omitempty"`
	Note       string            `json:"note,omitempty"`
}

var reFile = regexp.MustCompile(`[^A-Za-z0-9_.-]+`)

func writeReplay(g *G, dir, prop string, o *Obl) (string, bool) {
	rf := &ReplayFile{Property: prop, Obligation: o.Name, Kind: o.Kind, Function: o.Func, Status: o.Res.Status, Solver: o.Res.Solver, Goal: o.Raw}
	rf.At = shortFile(o.Pos.Filename)
	if o.Pos.Line > 0 {
		rf.At += ":" + itoa(o.Pos.Line)
	}
	out := o.Res.Raw
	if len(out) > 6000 {
		out = out[:6000] + "…"
	}
	rf.SolverOut = out
	if o.Model != nil {
		rf.Model = map[string]string{}
		rf.Inputs = map[string]string{}
		var ks []string
		for k := range o.Model {
			ks = append(ks, k)
		}
		sort.Strings(ks)
		for _, k := range ks {
			if len(rf.Model) < 400 {
				rf.Model[k] = o.Model[k]
			}
			if len(k) > 3 && k[:3] == "in_" {
				rf.Inputs[k[3:]] = o.Model[k]
			}
		}
		for name, c := range o.Hints {
			if o.Model[c] == "true" {
				rf.Path = append(rf.Path, name)
			}
		}
		sort.Strings(rf.Path)
	}
	replayed := tryReplay(g, rf, o)
	rf.Replayed = replayed
	if !replayed && rf.Note == "" {
		rf.Note = "no replay adapter produced a failing concrete input for this obligation; the failed obligation and the solver output are attached"
	}
	name := reFile.ReplaceAllString(o.Name, "_")
	if len(name) > 140 {
		name = name[:140]
	}
	p := filepath.Join(dir, prop+"__"+name+".json")
	b, _ := json.MarshalIndent(rf, "", " ")
	os.WriteFile(p, b, 0644)
	return p, replayed
}

func itoa(n int) string {
	if n == 0 {
		return "0"
	}
	s := ""
	for n > 0 {
		s = string(rune('0'+n%10)) + s
		n /= 10
	}
	return s
}

// tryReplay turns a failed no-panic obligation of a function over scalars and byte slices into a
// concrete run of the real code.  The failed query usually comes back "unknown" (quantified
// background axioms), so a model is searched in a relaxation of it: every quantified hypothesis is
// dropped and the index term ix(a,b) is replaced by a+b.  A model of the relaxation may be spurious;
// that is harmless because only a run of the real code that actually panics counts as a replay.
func tryReplay(g *G, rf *ReplayFile, o *Obl) bool {
	if o.Kind != "safety" || o.File == "" {
		return false
	}
	fn := g.fnByKey[o.Func]
	if fn == nil || fn.Signature.Recv() != nil || fn.Pkg == nil || len(fn.FreeVars) > 0 {
		rf.Note = "replay adapter covers package-level functions over integers, booleans, strings and byte slices; " + o.Func + " is not one"
		return false
	}
	type par struct {
		name string
		kind string // int | bool | bytes | string
		gt   string
	}
	var ps []par
	for _, p := range fn.Params {
		switch t := p.Type().Underlying().(type) {
		case *types.Basic:
			switch {
			case t.Info()&types.IsInteger != 0:
				ps = append(ps, par{p.Name(), "int", p.Type().String()})
			case t.Info()&types.IsBoolean != 0:
				ps = append(ps, par{p.Name(), "bool", p.Type().String()})
			case t.Info()&types.IsString != 0:
				ps = append(ps, par{p.Name(), "string", p.Type().String()})
			default:
				rf.Note = "replay adapter: unsupported parameter type " + p.Type().String()
				return false
			}
		case *types.Slice:
			if !isByteSlice(p.Type()) {
				rf.Note = "replay adapter: unsupported parameter type " + p.Type().String()
				return false
			}
			ps = append(ps, par{p.Name(), "bytes", "[]byte"})
		default:
			rf.Note = "replay adapter: unsupported parameter type " + p.Type().String()
			return false
		}
	}
	raw, err := os.ReadFile(o.File)
	if err != nil {
		return false
	}
	const nBytes = 96
	var sb strings.Builder
	for _, l := range strings.Split(string(raw), "\n") {
		if strings.HasPrefix(l, "(assert ") && strings.Contains(l, "(forall ") && !strings.HasPrefix(l, "(assert (not ") {
			continue
		}
		if strings.HasPrefix(l, "(get-model)") || strings.HasPrefix(l, "(check-sat)") {
			continue
		}
		sb.WriteString(strings.ReplaceAll(l, "(ix ", "(+ "))
		sb.WriteByte('\n')
	}
	sb.WriteString("(check-sat)\n")
	hasBytes := strings.Contains(sb.String(), "(declare-const A_byte!0 ")
	var terms []string
	for _, p := range ps {
		n := "in_" + san(p.name)
		switch p.kind {
		case "int", "bool":
			terms = append(terms, n)
		case "string":
			terms = append(terms, "(strlen "+n+")")
		case "bytes":
			terms = append(terms, "(s-len "+n+")", "(s-cap "+n+")")
			for i := 0; i < nBytes; i++ {
				if hasBytes {
					terms = append(terms, fmt.Sprintf("(select (select A_byte!0 (s-arr %s)) (+ (s-off %s) %d))", n, n, i))
				} else {
					terms = append(terms, "0") // the query never looks at the bytes
				}
			}
		}
	}
	if len(terms) == 0 {
		return false
	}
	for _, t := range terms {
		sb.WriteString("(get-value (" + t + "))\n")
	}
	qf := strings.TrimSuffix(o.File, ".smt2") + "_replaysearch.smt2"
	if os.WriteFile(qf, []byte(sb.String()), 0644) != nil {
		return false
	}
	r := runSolver(context.Background(), solvers[0], qf, 10)
	if r.Status != "sat" {
		r = runSolver(context.Background(), solvers[1], qf, 10)
	}
	if r.Status != "sat" {
		rf.Note = "replay adapter: no model found for the quantifier-free relaxation of the failed query (" + r.Status + ")"
		return false
	}
	// parse the "((term value))" answers in order (an answer may span several lines)
	var vals []string
	txt := r.Raw
	if k := strings.Index(txt, "sat"); k >= 0 {
		txt = txt[k+3:]
	}
	depth, start := 0, -1
	for i := 0; i < len(txt); i++ {
		switch txt[i] {
		case '(':
			if depth == 0 {
				start = i
			}
			depth++
		case ')':
			depth--
			if depth == 0 && start >= 0 {
				l := strings.Join(strings.Fields(txt[start:i+1]), " ")
				start = -1
				if !strings.HasPrefix(l, "((") {
					continue
				}
				l = strings.TrimSuffix(strings.TrimPrefix(l, "(("), "))")
				v := l
				if strings.HasSuffix(l, ")") {
					d := 0
					for j := len(l) - 1; j >= 0; j-- {
						if l[j] == ')' {
							d++
						} else if l[j] == '(' {
							d--
							if d == 0 {
								v = l[j:]
								break
							}
						}
					}
				} else if k := strings.LastIndexByte(l, ' '); k >= 0 {
					v = l[k+1:]
				}
				v = strings.ReplaceAll(strings.ReplaceAll(strings.ReplaceAll(v, "(- ", "-"), ")", ""), "(", "")
				vals = append(vals, strings.TrimSpace(v))
			}
		}
	}
	if len(vals) != len(terms) {
		rf.Note = "replay adapter: could not read the model values"
		return false
	}
	rf.Inputs = map[string]string{}
	var body strings.Builder
	var args []string
	vi := 0
	// second pass (simple and explicit): build declarations
	vi = 0
	body.Reset()
	for _, p := range ps {
		switch p.kind {
		case "int":
			rf.Inputs[p.name] = vals[vi]
			if strings.HasPrefix(vals[vi], "-") {
				fmt.Fprintf(&body, "\tw_%s := int64(%s)\n\tp_%s := %s(w_%s)\n", p.name, vals[vi], p.name, p.gt, p.name)
			} else {
				fmt.Fprintf(&body, "\tw_%s := uint64(%s)\n\tp_%s := %s(w_%s)\n", p.name, vals[vi], p.name, p.gt, p.name)
			}
			vi++
		case "bool":
			rf.Inputs[p.name] = vals[vi]
			fmt.Fprintf(&body, "\tp_%s := %s\n", p.name, vals[vi])
			vi++
		case "string":
			n := atoiSafe(vals[vi])
			if n < 0 || n > 1<<24 {
				rf.Note = "replay adapter: model wants a string of " + vals[vi] + " bytes; not materialised"
				return false
			}
			rf.Inputs["len("+p.name+")"] = vals[vi]
			fmt.Fprintf(&body, "\tp_%s := %s(make([]byte, %d))\n", p.name, p.gt, n)
			vi++
		case "bytes":
			ln, cp := atoiSafe(vals[vi]), atoiSafe(vals[vi+1])
			if ln < 0 || cp < ln || cp > 1<<26 {
				rf.Note = "replay adapter: model wants a slice of length " + vals[vi] + " and capacity " + vals[vi+1] + "; not materialised"
				return false
			}
			rf.Inputs["len("+p.name+")"], rf.Inputs["cap("+p.name+")"] = vals[vi], vals[vi+1]
			fmt.Fprintf(&body, "\tp_%s := make([]byte, %d, %d)\n", p.name, ln, cp)
			var bs []string
			for i := 0; i < nBytes && i < ln; i++ {
				b := atoiSafe(vals[vi+2+i])
				if b < 0 || b > 255 {
					b = 0
				}
				if b != 0 {
					fmt.Fprintf(&body, "\tp_%s[%d] = %d\n", p.name, i, b)
				}
				bs = append(bs, fmt.Sprint(b))
			}
			rf.Inputs[p.name+"[:"+fmt.Sprint(len(bs))+"]"] = strings.Join(bs, " ")
			vi += 2 + nBytes
		}
		args = append(args, "p_"+p.name)
	}
	pkgPath := fn.Pkg.Pkg.Path()
	pkgDir := strings.TrimPrefix(strings.TrimPrefix(pkgPath, g.modPath), "/")
	src := "package " + fn.Pkg.Pkg.Name() + "\n\nimport \"testing\"\n\n// generated by govc from the model of the failed obligation\n// " + o.Name + "\nfunc TestGovcReplay(t *testing.T) {\n" +
		body.String() + "\t" + fn.Name() + "(" + strings.Join(args, ", ") + ")\n}\n"
	out, failed := runReplayTest(pkgDir, src)
	rf.ReplayPkg, rf.ReplayTest, rf.ReplayOut = pkgDir, src, out
	if failed && strings.Contains(out, "panic") {
		rf.Note = "the model of the failed obligation makes the real function panic (see replay_output); rerun with ./check " + rf.Property + " --replay <this file>"
		return true
	}
	rf.Note = "the model found for the relaxed query does not make the real function panic (spurious model or a non-panic obligation)"
	return false
}

func atoiSafe(s string) int {
	n, neg := 0, false
	for i, c := range s {
		if i == 0 && c == '-' {
			neg = true
			continue
		}
		if c < '0' || c > '9' {
			return -1
		}
		n = n*10 + int(c-'0')
		if n > 1<<40 {
			return 1 << 40
		}
	}
	if neg {
		return -n
	}
	return n
}

// runReplayTest injects an in-package test with go test -overlay (nothing is written into the repo)
// and runs it against the real code.  Returns output and whether the test failed.
func runReplayTest(pkgDir, src string) (string, bool) {
	tmp, err := os.MkdirTemp(filepath.Join(*flagVerif, ".work"), "replay")
	if err != nil {
		os.MkdirAll(filepath.Join(*flagVerif, ".work"), 0755)
		tmp, err = os.MkdirTemp(filepath.Join(*flagVerif, ".work"), "replay")
		if err != nil {
			return err.Error(), false
		}
	}
	defer os.RemoveAll(tmp)
	tf := filepath.Join(tmp, "zz_replay_test.go")
	os.WriteFile(tf, []byte(src), 0644)
	target := filepath.Join(*flagRepo, pkgDir, "zz_govc_replay_test.go")
	ov := map[string]map[string]string{"Replace": {target: tf}}
	ob, _ := json.Marshal(ov)
	of := filepath.Join(tmp, "ov.json")
	os.WriteFile(of, ob, 0644)
	cmd := exec.Command("bash", "-c", "ulimit -v 8000000; cd "+filepath.Join(*flagRepo, pkgDir)+" && go test -overlay "+of+" -vet=off -count=1 -timeout 60s -run TestGovcReplay . 2>&1 | tail -40")
	cmd.Env = append(os.Environ(), "GOFLAGS=-mod=mod", "GOPROXY=off", "GOSUMDB=off", "GOTOOLCHAIN=local")
	out, _ := cmd.CombinedOutput()
	txt := string(out)
	failed := strings.Contains(txt, "--- FAIL") || strings.Contains(txt, "panic:") || strings.Contains(txt, "FAIL\t")
	return txt, failed
}
