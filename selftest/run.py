#!/usr/bin/env python3
"""Self-test of the verifier: apply each patch of the corpus to a scratch worktree of /repo (outside
/repo and /verif), run govc on it, and compare with the expectation (must-fail patches must produce a
VIOLATION on the named obligation; harmless patches must stay green).  Usage: run.py [name-substring]"""
import json, os, subprocess, sys, shutil, tempfile, glob

VERIF = os.path.dirname(os.path.dirname(os.path.abspath(__file__)))
REPO = os.environ.get("VERIF_REPO", "/repo")
GOVC = os.path.join(VERIF, "bin", "govc")
ENV = dict(os.environ, GOFLAGS="-mod=mod", GOPROXY="off", GOSUMDB="off", GOTOOLCHAIN="local")

def sh(cmd, **kw):
    return subprocess.run(cmd, shell=True, text=True, capture_output=True, env=ENV, **kw)

def main():
    cases = json.load(open(os.path.join(VERIF, "selftest", "cases.json")))
    args = sys.argv[1:]
    only_prop = ""
    if "--prop" in args:
        k = args.index("--prop"); only_prop = args[k + 1]; del args[k:k + 2]
    lenient = os.environ.get("SELFTEST_LENIENT") == "1"
    flt = args[0] if args else ""
    n_ok = n_skip = 0
    root = os.environ.get("VERIF_SCRATCH", "/root/scratch")
    os.makedirs(root, exist_ok=True)
    bad = 0
    for c in cases:
        if flt and flt not in c["name"]:
            continue
        if only_prop and (only_prop not in c["props"] or c.get("only_full")):
            continue
        wt = tempfile.mkdtemp(prefix="st_", dir=root)
        os.rmdir(wt)
        r = sh(f"git -C {REPO} worktree add -q --detach {wt} HEAD")
        if r.returncode != 0:
            print("worktree failed", r.stderr); return 2
        try:
            # uncommitted contract files of the working tree
            for f in glob.glob(os.path.join(REPO, "zz_contracts*_verif.go")) + glob.glob(os.path.join(REPO, "*", "zz_contracts*_verif.go")):
                shutil.copy(f, os.path.join(wt, os.path.relpath(f, REPO)))
            patch = os.path.join(VERIF, "selftest", "patches", c["patch"])
            r = sh(f"git -C {wt} apply {patch}")
            if r.returncode != 0:
                if lenient:
                    print(f"skip {c['name']}: patch does not apply to this tree"); n_skip += 1; continue
                print(f"SELFTEST-ERROR {c['name']}: patch does not apply: {r.stderr.strip()}"); bad += 1; continue
            ok_all = True
            for prop in ([only_prop] if only_prop else c["props"]):
                r = sh(f"{GOVC} -repo {wt} -verif {VERIF} -prop {prop} -no-evidence -tier quick")
                out = r.stdout
                viol = [l for l in out.splitlines() if l.startswith("VIOLATION")]
                if c["expect"] == "violation":
                    hit = [l for l in viol if c.get("obligation", "") in l]
                    ok = r.returncode == 1 and len(hit) > 0
                else:
                    ok = r.returncode == 0 and not viol
                tag = "ok  " if ok else "FAIL"
                print(f"{tag} {c['name']:45s} {prop} expect={c['expect']:9s} exit={r.returncode} violations={len(viol)}" + ("" if ok else "\n" + out[-1500:]))
                ok_all &= ok
            if not ok_all:
                bad += 1
            else:
                n_ok += 1
        finally:
            sh(f"git -C {REPO} worktree remove --force {wt}")
            shutil.rmtree(wt, ignore_errors=True)
    print(f"selftest: {n_ok} ok, {n_skip} skipped, {bad} misbehave")
    print("selftest:", "all cases behave" if bad == 0 else f"{bad} case(s) misbehave")
    return 1 if bad else 0

if __name__ == "__main__":
    sys.exit(main())
