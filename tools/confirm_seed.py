#!/usr/bin/env python3
"""tools/confirm_seed.py <seed_out_dir> <id> <prop> [props-to-check...]
Confirms a seeded change produced by a sub-agent against /repo HEAD in a scratch worktree (outside /repo and
/verif): patch applies, builds, full existing suite passes with it, demo fails with it and passes without it;
then runs the named checks on the patched tree and stores everything under /verif/seeded/<id>/."""
import json, os, re, shutil, subprocess, sys, tempfile, glob, time
ENV = dict(os.environ, GOFLAGS="-mod=mod", GOPROXY="off", GOSUMDB="off", GOTOOLCHAIN="local")
def sh(cmd, cwd=None, t=900):
    r = subprocess.run(cmd, shell=True, text=True, capture_output=True, env=ENV, cwd=cwd, timeout=t)
    return r.returncode, (r.stdout + r.stderr)
src, sid, prop = sys.argv[1], sys.argv[2], sys.argv[3]
props = sys.argv[4:] or [prop]
os.makedirs("/root/scratch", exist_ok=True)
wt = tempfile.mkdtemp(prefix="cs_", dir="/root/scratch"); os.rmdir(wt)
rc, out = sh(f"git -C /repo worktree add -q --detach {wt} HEAD")
meta = {"id": sid, "property": prop, "source": "independent sub-agent given only the property text and a scratch worktree", "ran": []}
try:
    patch = os.path.join(src, "patch.diff")
    demo = os.path.join(src, "demo_test.go")
    first = open(demo).readline()
    m = re.search(r"place in:\s*(\S+)", first)
    place = m.group(1) if m else "."
    # demo without the change
    dst = os.path.join(wt, place, "zz_seed_demo_test.go")
    shutil.copy(demo, dst)
    rc0, out0 = sh(f"go test -vet=off -count=1 -timeout 300s -run . ./{place} 2>&1 | tail -15", cwd=wt)
    demo_names = re.findall(r"func (Test\w+)\(", open(demo).read())
    run = "|".join(demo_names) or "."
    rc0, out0 = sh(f"go test -vet=off -count=1 -timeout 300s -run '^({run})$' ./{place}", cwd=wt)
    meta["ran"].append({"cmd": f"demo on unchanged tree: go test -run '^({run})$' ./{place}", "exit": rc0})
    os.remove(dst)
    rc, out = sh(f"git apply {patch}", cwd=wt)
    if rc != 0:
        rc, out = sh(f"git apply -3 {patch}", cwd=wt)
    if rc != 0:
        print("PATCH DOES NOT APPLY", out[:300]); sys.exit(3)
    # regenerate the diff against HEAD (context may have moved)
    rc, newdiff = sh("git diff HEAD", cwd=wt)
    rcb, outb = sh("go build ./...", cwd=wt)
    meta["ran"].append({"cmd": "go build ./... (with change)", "exit": rcb})
    rct, outt = sh("go test -vet=off -count=1 -timeout 20m ./...", cwd=wt, t=1500)
    meta["ran"].append({"cmd": "go test -vet=off -count=1 ./... (existing suite, with change)", "exit": rct})
    shutil.copy(demo, dst)
    rc1, out1 = sh(f"go test -vet=off -count=1 -timeout 300s -run '^({run})$' ./{place}", cwd=wt)
    meta["ran"].append({"cmd": f"demo with change: go test -run '^({run})$' ./{place}", "exit": rc1, "tail": out1[-400:]})
    os.remove(dst)
    ok = rcb == 0 and rct == 0 and rc0 == 0 and rc1 != 0
    meta["confirmed"] = ok
    # contract files of the working tree
    for f in glob.glob("/repo/zz_contracts*_verif.go") + glob.glob("/repo/*/zz_contracts*_verif.go"):
        shutil.copy(f, os.path.join(wt, os.path.relpath(f, "/repo")))
    det = {}
    for p in props:
        rcv, outv = sh(f"/verif/bin/govc -repo {wt} -verif /verif -prop {p} -no-evidence -tier quick", t=900)
        viol = [l.split("obligation=")[1].split(" status=")[0] for l in outv.splitlines() if l.startswith("VIOLATION")]
        det[p] = {"exit": rcv, "violations": viol[:6]}
    meta["detected_by"] = {p: d["violations"] for p, d in det.items() if d["violations"]}
    meta["checks_run"] = {p: d["exit"] for p, d in det.items()}
    notes = os.path.join(src, "notes.md")
    if os.path.exists(notes):
        txt = open(notes).read()
        meta["needs_to_manifest"] = txt[:1500]
    if ok:
        out_dir = f"/verif/seeded/{sid}"
        os.makedirs(out_dir, exist_ok=True)
        open(os.path.join(out_dir, "patch.diff"), "w").write(newdiff)
        shutil.copy(demo, os.path.join(out_dir, "demo_test.go"))
        if os.path.exists(notes):
            shutil.copy(notes, os.path.join(out_dir, "notes.md"))
        json.dump(meta, open(os.path.join(out_dir, "meta.json"), "w"), indent=1)
    print(sid, "confirmed" if ok else f"NOT CONFIRMED build={rcb} suite={rct} demo_without={rc0} demo_with={rc1}", "| detected:", {p: len(d["violations"]) for p, d in det.items()})
finally:
    sh(f"git -C /repo worktree remove --force {wt}")
    shutil.rmtree(wt, ignore_errors=True)
