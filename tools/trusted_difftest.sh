#!/bin/bash
# tools/trusted_difftest.sh [repo]  — thorough tier: bounded differential validation of the TRUSTED library contracts
# (/verif/trusted/difftest/*.go.txt) against the libraries /repo really links, injected with go test -overlay
# (nothing is written into the repo).  Exit 0 if every assumption checked holds; otherwise prints the failing output.
REPO=${1:-${VERIF_REPO:-/repo}}
V=$(cd "$(dirname "$0")/.." && pwd)
export GOFLAGS=-mod=mod GOPROXY=off GOSUMDB=off GOTOOLCHAIN=local
W=$(mktemp -d "$V/.work/difftest.XXXX" 2>/dev/null || { mkdir -p "$V/.work"; mktemp -d "$V/.work/difftest.XXXX"; })
rc=0
for spec in "datafile:datafile:TestGovcTrustedDatafile" "index:index:TestGovcTrustedIndex" "fio:fio:TestGovcTrustedFio" "root:.:TestGovcTrustedRoot"; do
  IFS=: read name dir test <<< "$spec"
  cp "$V/trusted/difftest/${name}_trusted_test.go.txt" "$W/${name}_test.go"
  printf '{"Replace": {"%s": "%s"}}' "$REPO/$dir/zz_govc_trusted_test.go" "$W/${name}_test.go" > "$W/ov_$name.json"
  out=$(cd "$REPO/$dir" && go test -overlay "$W/ov_$name.json" -vet=off -count=1 -timeout 120s -run "^$test\$" . 2>&1)
  if echo "$out" | grep -q "^ok"; then echo "trusted-difftest $name: ok"; else echo "trusted-difftest $name: FAILED"; echo "$out" | tail -15; rc=1; fi
done
rm -rf "$W"
exit $rc
