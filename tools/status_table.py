#!/usr/bin/env python3
"""prints the as-built status table (markdown) from /verif/evidence/*.json (maintainer tool for DESIGN.md)"""
import json, glob, os
rows = []
for f in sorted(glob.glob("/verif/evidence/C*.json")):
    e = json.load(open(f)); c = e["coverage"]
    kinds = c.get("obligation_kinds", {})
    k = ", ".join(f"{n} {kinds[n]}" for n in sorted(kinds, key=lambda x: -kinds[x])[:5])
    rows.append(f"| {e['property_id']} | {len(c['functions_under_contract'])} | {c['obligations']} | {c['discharged']} | {k} | {e['wall_s']:.0f} s |")
print("| id | functions under contract | obligations | discharged | largest obligation kinds | wall (quick) |\n|---|---|---|---|---|---|")
print("\n".join(rows))
