#!/bin/bash
# tools/try_patch.sh <patch.diff> <prop>...  : run the checks of the given properties on a scratch
# worktree of /repo HEAD with the patch applied (outside /repo and /verif); prints one line per property.
P="$1"; shift
mkdir -p /root/scratch
WT=$(mktemp -d /root/scratch/tp_XXXX); rmdir "$WT"
git -C /repo worktree add -q --detach "$WT" HEAD || exit 2
# contract files as they are in /repo's working tree (they may be ahead of HEAD)
for f in /repo/zz_contracts*_verif.go /repo/*/zz_contracts*_verif.go; do [ -f "$f" ] && cp "$f" "$WT/${f#/repo/}"; done
if ! git -C "$WT" apply "$P" 2>/tmp/apply.err; then echo "PATCH-DOES-NOT-APPLY $(head -2 /tmp/apply.err)"; git -C /repo worktree remove --force "$WT"; exit 3; fi
for prop in "$@"; do
  out=$(/verif/bin/govc -repo "$WT" -verif /verif -prop "$prop" -no-evidence -tier quick 2>&1)
  echo "$prop: $(echo "$out" | grep -c '^VIOLATION') violations; $(echo "$out" | grep -c '^UNDECIDED') undecided; $(echo "$out" | grep '^VIOLATION' | sed 's/.*obligation=//' | cut -c1-110 | head -3 | tr '\n' '|')"
done
git -C /repo worktree remove --force "$WT"
