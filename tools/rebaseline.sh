#!/bin/bash
# maintainer tool: re-record baseline_obligations.json for the given (or all claimed) properties on the current tree
cd /verif
PROPS="$@"
[ -z "$PROPS" ] && PROPS=$(python3 -c "import json;print(' '.join(c['property_id'] for c in json.load(open('MANIFEST.json'))['checks']))")
for p in $PROPS; do ./bin/govc -prop $p -write-baseline -no-evidence | tail -1; done
