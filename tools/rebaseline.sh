#!/bin/bash
# maintainer tool: re-record baseline_obligations.json for the given (or all claimed) properties on the current tree.
# Run it on an otherwise idle machine.  A property whose run is not fully discharged (apart from listed known
# findings) is reported loudly: recording an undischarged obligation would let it pass as "undecided" later.
cd /verif
PROPS="$@"
[ -z "$PROPS" ] && PROPS=$(python3 -c "import json;print(' '.join(c['property_id'] for c in json.load(open('MANIFEST.json'))['checks']))")
for p in $PROPS; do
  line=$(./bin/govc -prop $p -write-baseline -no-evidence | tail -1)
  echo "$line"
  o=$(echo "$line" | sed -n 's/.*obligations=\([0-9]*\).*/\1/p'); d=$(echo "$line" | sed -n 's/.*discharged=\([0-9]*\).*/\1/p'); k=$(echo "$line" | sed -n 's/.*known=\([0-9]*\).*/\1/p')
  if [ "$((d + k))" != "$o" ]; then echo "WARNING: $p baseline recorded with $((o - d - k)) undischarged obligation(s) — fix the contract or the proof and re-run"; fi
done
