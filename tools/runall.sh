#!/bin/bash
# usage: tools/runall.sh [props...]  — summary line per property, without touching evidence
cd /verif
props="$@"
[ -z "$props" ] && props=$(python3 -c "import json;print(' '.join(c['property_id'] for c in json.load(open('MANIFEST.json'))['checks']))")
for p in $props; do ./bin/govc -prop $p -no-evidence 2>&1 | grep -v "obligation-count" | grep "UNDEC\|VIOL\|KNOWN\|^govc" | sed 's/replay=[^ ]* //' | cut -c1-230 | head -12; done
