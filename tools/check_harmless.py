#!/usr/bin/env python3
"""tools/check_harmless.py <patch.diff>...  — maintainer tool.
Applies each behaviour-preserving patch to a scratch worktree of /repo HEAD (outside /repo and /verif), and runs
every registered property restricted to the functions the patch touches (-func), or the whole property when a
touched function is an inlined helper.  Any VIOLATION is a false alarm to look at."""
import json, os, re, shutil, subprocess, sys, glob, tempfile
ENV = dict(os.environ, GOFLAGS="-mod=mod", GOPROXY="off", GOSUMDB="off", GOTOOLCHAIN="local")
def sh(cmd, cwd=None, t=1800):
    r = subprocess.run(cmd, shell=True, text=True, capture_output=True, env=ENV, cwd=cwd, timeout=t)
    return r.returncode, r.stdout + r.stderr
props = [c["property_id"] for c in json.load(open("/verif/MANIFEST.json"))["checks"]]
spec_text = "".join(open(f).read() for f in glob.glob("/repo/zz_contracts*_verif.go") + glob.glob("/repo/*/zz_contracts*_verif.go"))
os.makedirs("/root/scratch", exist_ok=True)
for patch in sys.argv[1:]:
    wt = tempfile.mkdtemp(prefix="hl_", dir="/root/scratch"); os.rmdir(wt)
    sh(f"git -C /repo worktree add -q --detach {wt} HEAD")
    try:
        rc, out = sh(f"git apply {patch}", cwd=wt)
        if rc != 0:
            rc, out = sh(f"git apply -3 {patch}", cwd=wt)
        if rc != 0:
            print(patch, "PATCH DOES NOT APPLY"); continue
        rcb, outb = sh("go build ./...", cwd=wt)
        if rcb != 0:
            print(patch, "DOES NOT BUILD"); continue
        for f in glob.glob("/repo/zz_contracts*_verif.go") + glob.glob("/repo/*/zz_contracts*_verif.go"):
            shutil.copy(f, os.path.join(wt, os.path.relpath(f, "/repo")))
        funcs = set()
        for l in open(patch):
            m = re.match(r"@@.*@@\s*func\s*(\([^)]*\))?\s*(\w+)\(", l) or re.match(r"[-+ ]func\s*(\([^)]*\))?\s*(\w+)\(", l)
            if m:
                recv, name = m.group(1), m.group(2)
                if recv:
                    t = re.sub(r"[()*]", " ", recv).split()[-1]
                    funcs.add(f"{t}).{name}")
                else:
                    funcs.add(f".{name}")
        whole = False
        for fn in funcs:
            # inlined helper or a function without contract: its callers carry the obligations
            key = fn.lstrip(".")
            m = re.search(r"//@ func [^\n]*" + re.escape(key) + r"\n((?://@.*\n)*)", spec_text)
            if not m or "//@   inline" in m.group(1):
                whole = True
        bad = []
        for p in props:
            targets = [None] if whole else sorted(funcs)
            for fn in targets:
                cmd = f"/verif/bin/govc -repo {wt} -verif /verif -prop {p} -no-evidence -tier quick" + (f" -func '{fn}'" if fn else "")
                rcv, outv = sh(cmd)
                for l in outv.splitlines():
                    if l.startswith("VIOLATION") or (l.startswith("UNDECIDED") and "obligation-count" not in l):
                        bad.append(f"{p}: " + l.split("obligation=")[-1][:150])
        print(("ALARM " if bad else "green ") + patch, "functions:", sorted(funcs), "(whole properties)" if whole else "")
        for b in bad[:8]:
            print("    ", b)
        sys.stdout.flush()
    finally:
        sh(f"git -C /repo worktree remove --force {wt}")
        shutil.rmtree(wt, ignore_errors=True)
