#!/usr/bin/env python3
"""debug aid: unsat core of a dumped obligation.  usage: core.py file.smt2 [timeout]"""
import sys,subprocess,re
f=sys.argv[1]; T=sys.argv[2] if len(sys.argv)>2 else "60"
lines=open(f).read().split('\n')
out=["(set-option :produce-unsat-cores true)"]; names={}
n=0
for l in lines:
    if l.startswith('(assert ') and not l.startswith('(assert (forall ((a Int) (b Int)) (! (= (ix'):
        n+=1; nm=f"a{n}"; names[nm]=l
        out.append(f"(assert (! {l[8:-1]} :named {nm}))")
    elif l.startswith('(get-model)'):
        out.append('(get-unsat-core)')
    else: out.append(l)
open(f+'.core.smt2','w').write('\n'.join(out))
r=subprocess.run(['z3-new','-T:'+T,f+'.core.smt2'],capture_output=True,text=True).stdout
print(r.split('\n')[0])
m=re.search(r'\(([a0-9 \n]+)\)',r[r.find('\n'):])
if m:
    core=m.group(1).split()
    print(len(core),'of',n)
    keep=set(core)
    o2=[]
    n=0
    for l in lines:
        if l.startswith('(assert ') and not l.startswith('(assert (forall ((a Int) (b Int)) (! (= (ix'):
            n+=1
            if f"a{n}" in keep: o2.append(l)
        else: o2.append(l)
    open(f+'.min.smt2','w').write('\n'.join(o2))
    for c in core: print(c, names[c][:300])
