#!/usr/bin/env python3
"""maintainer tool: refresh the 'functions | obligations' columns of the §0a.1 table in DESIGN.md from /verif/evidence"""
import json, re, glob
p = "/verif/DESIGN.md"; s = open(p).read()
for f in sorted(glob.glob("/verif/evidence/C*.json")):
    e = json.load(open(f)); c = e["coverage"]; pid = e["property_id"]
    nf, no, nd = len(c["functions_under_contract"]), c["obligations"], c["discharged"]
    kf = len(c.get("known_findings") or [])
    obl = f"{no}" + (f" ({kf} known findings)" if kf else "")
    s, n = re.subn(r"^\| %s \| \d+ \| \d+( \(\d+ known findings\))? \|" % pid, f"| {pid} | {nf} | {obl} |", s, flags=re.M)
    if n != 1: print("row not found for", pid)
open(p, "w").write(s)
print("ok")
